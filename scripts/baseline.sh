#!/bin/bash
# Runs the repository's own test suite (no verif build tag, no overlay, default
# toolchain) and compares the set of passing tests with /root/.vp/BASELINE.json.
# usage: baseline.sh [repo-dir]
REPO=${1:-/repo}
export GOFLAGS=-mod=mod GOPROXY=off GOSUMDB=off
OUT=$(mktemp)
trap 'rm -f "$OUT"' EXIT
(cd "$REPO" && go test -json -vet=off -count=1 -timeout 25m ./... > "$OUT" 2>/dev/null)
python3 - "$OUT" <<'PY'
import json,sys
passed=set(); failed=set()
for line in open(sys.argv[1]):
    try: e=json.loads(line)
    except Exception: continue
    t=e.get('Test')
    if not t or '/' in t: continue
    k=e['Package']+'::'+t
    if e.get('Action')=='pass': passed.add(k)
    elif e.get('Action')=='fail': failed.add(k)
base=json.load(open('/root/.vp/BASELINE.json'))
want=set(base['stable_pass'])
missing=sorted(want-passed)
print(f"baseline: {len(passed&want)}/{len(want)} stable tests pass; failing now: {sorted(failed)}")
if missing:
    print("MISSING:", *missing, sep="\n  ")
    sys.exit(1)
PY
