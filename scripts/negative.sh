#!/bin/bash
# usage: negative.sh <name> <patch.diff> <property>...  — a change that is believed to
# PRESERVE the properties: every named quick check must stay quiet (exit 0).
cd /verif
NAME=$1; PATCH=$(readlink -f "$2"); shift 2
W=$(mktemp -d /tmp/neg-XXXXXX)
git -C /repo worktree add -q --detach "$W/repo" HEAD || exit 2
trap 'git -C /repo worktree remove --force "$W/repo" 2>/dev/null; rm -rf "$W"' EXIT
git -C "$W/repo" apply "$PATCH" || { echo "$NAME: patch does not apply"; exit 2; }
echo "$NAME: $(/verif/scripts/baseline.sh "$W/repo" | head -1)"
for c in "$@"; do
  r=$(VCHECK_REPO="$W/repo" ./bin/vcheck run $c --tier quick 2>&1); code=$?
  echo "$NAME $c exit=$code $(echo "$r" | grep -E "violation class|^vcheck:|INFRA|un-instrumented" | head -3 | cut -c1-400 | tr '\n' ' ')"
done
