#!/bin/bash
# usage: seed.sh <name> <agent-worktree> <demo-dest-dir-in-repo> <go-test-run-pattern> <property>...
# Confirms a seeded change independently (fresh worktree: suite still passes, the
# demonstration fails with the change and passes without it), runs the named quick
# checks against it, and files it under /verif/seeded/<name>/.
set -u
NAME=$1; SRC=$2; DEST=$3; PAT=$4; shift 4
export GOFLAGS=-mod=mod GOPROXY=off GOSUMDB=off
OUT=/verif/seeded/$NAME
mkdir -p "$OUT"
cp "$SRC"/MUTANT/patch.diff "$OUT/patch.diff"
cp "$SRC"/MUTANT/README.md "$OUT/agent-README.md" 2>/dev/null
find "$SRC/MUTANT" -name "*.go" -exec cp {} "$OUT/" \;
W=$(mktemp -d /tmp/seed-XXXXXX)
git -C /repo worktree add -q --detach "$W/repo" HEAD || exit 2
trap 'git -C /repo worktree remove --force "$W/repo" 2>/dev/null; rm -rf "$W"' EXIT
for f in "$OUT"/*_test.go; do [ -f "$f" ] && cp "$f" "$W/repo/$DEST/"; done
PKG="./$DEST"
demo_clean=$(cd "$W/repo" && go test -vet=off -count=1 -run "$PAT" "$PKG" 2>&1 | tail -3 | tr '\n' ' ')
if ! git -C "$W/repo" apply "$OUT/patch.diff"; then echo "PATCH DOES NOT APPLY"; exit 2; fi
demo_mut=$(cd "$W/repo" && go test -vet=off -count=1 -run "$PAT" "$PKG" 2>&1 | tail -3 | tr '\n' ' ')
# the suite must be judged without the demonstration present
for f in "$OUT"/*_test.go; do [ -f "$f" ] && rm -f "$W/repo/$DEST/$(basename "$f")"; done
suite=$(/verif/scripts/baseline.sh "$W/repo" | head -1)
echo "demo on clean tree : $demo_clean"
echo "demo with change   : $demo_mut"
echo "suite with change  : $suite"
res=""
for p in "$@"; do
  r=$(VCHECK_REPO="$W/repo" /verif/bin/vcheck run "$p" --tier "${TIER:-quick}" 2>&1 | grep -E "^VIOLATION|violation class|^KNOWN|quick:|thorough:|vcheck:|INFRA" | cut -c1-300)
  echo "--- $p"; echo "$r"
  res="$res$p: $(echo "$r" | grep -c '^VIOLATION') violation line(s); "
done
git -C /verif checkout -q -- evidence 2>/dev/null
python3 - "$OUT" "$NAME" "$demo_clean" "$demo_mut" "$suite" "$res" "$DEST" "$PAT" "$*" <<'PY'
import json,sys,os
out,name,dc,dm,suite,res,dest,pat,props=sys.argv[1:10]
p=os.path.join(out,'meta.json')
m=json.load(open(p)) if os.path.exists(p) else {}
m.update({"name":name,"demo_location":dest,"demo_run_pattern":pat,"confirmed":{"demo_on_clean_tree":dc.strip(),"demo_with_change":dm.strip(),"suite_with_change":suite.strip()},
 "ran":"scripts/seed.sh (fresh worktree of /repo HEAD, patch applied with git apply, go test for the demonstration, scripts/baseline.sh for the suite, bin/vcheck run <property> --tier quick with VCHECK_REPO pointing at the worktree)"})
if props.split():
    m["checks_run"]=props.split(); m["check_results"]=res.strip()
json.dump(m,open(p,'w'),indent=1)
PY
