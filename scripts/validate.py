#!/opt/veriftools/pyvenv/bin/python
import json, jsonschema, glob, sys
ok = True
try:
    jsonschema.validate(json.load(open('/verif/MANIFEST.json')), json.load(open('/root/.vp/MANIFEST.schema.json')))
    print('manifest valid')
except Exception as e:
    print('MANIFEST INVALID', e); ok = False
sch = json.load(open('/root/.vp/EVIDENCE.schema.json'))
for f in sorted(glob.glob('/verif/evidence/*.json')):
    try:
        jsonschema.validate(json.load(open(f)), sch); print('valid', f)
    except Exception as e:
        print('INVALID', f, str(e)[:300]); ok = False
sys.exit(0 if ok else 1)
