#!/bin/bash
# Runs the thorough tier of every claimed check, one after the other, with the
# given seed (default 7); prints one line per check and keeps the full output in
# /tmp/thorough-<seed>/.  Evidence files are rewritten (tier "thorough").
cd /verif
SEED=${1:-7}
OUT=/tmp/thorough-$SEED; mkdir -p $OUT
for p in $(python3 -c "import json;print(' '.join(c['property_id'] for c in json.load(open('MANIFEST.json'))['checks']))"); do
  t0=$(date +%s)
  VERIF_SEED=$SEED ./bin/vcheck run $p --tier thorough > $OUT/$p.log 2>&1
  code=$?
  echo "$p exit=$code $(( $(date +%s) - t0 ))s $(tail -1 $OUT/$p.log | cut -c1-200)"
done
