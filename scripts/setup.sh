#!/bin/bash
# Builds the vsim driver from files on disk (offline) and warms the harness build.
set -e
cd "$(dirname "$0")/.."
export GOFLAGS=-mod=mod GOPROXY=off GOSUMDB=off GOTOOLCHAIN=local
mkdir -p bin evidence replays .cache
(cd vsim && go1.26.8 build -o ../bin/vcheck ./cmd/vcheck)
./bin/vcheck build
# determinism self-test: same seed, separate processes, GOMAXPROCS 1/4/16 -> identical event logs
./bin/vcheck selftest
