#!/usr/bin/env python3
"""Regenerates /verif/MANIFEST.json from the table below (keeps it schema-valid)."""
import json, os, sys
V = os.path.dirname(os.path.dirname(os.path.abspath(__file__)))

claimed = {
 "C01": ("4 C01", "stream harness: simulated line -> real HandleMessages goroutine -> consumer, independent CRC-24Q/frame-shape oracle on every typed message, plus GetMessage on every segment/variant/prefix/extension"),
 "C02": ("4 C02", "stream harness with byte-conservation oracle and close-of-input after every byte position (crash-point enumeration on short streams)"),
 "C03": ("4 C03", "RTCM device + NMEA/UBX talker multiplexed on one simulated line; ground-truth segment list from the generator; truncation of the last frame at every byte"),
 "C09": ("4 C09", "appcore.HandleMessagesUntilEOF with 1-4 consumers under the controlled scheduler; differential oracle against sequential framing; leak, double-close and termination checks"),
 "C12": ("4 C12", "C03 harness with one victim frame corrupted in payload/CRC: every single-bit flip of short victims, sampled multi-bit/burst/0xD3 overwrites"),
 "C13": ("4 C13", "file_handler.Handle over a simulated source injecting EOF / i-o timeout / fatal errors and silences under the synctest fake clock"),
}
under_construction = {}
na = {
 "C04": "pure function of one frame's bits (MSM4/MSM7 decode exactness): no schedule, clock, fault or interleaving enters it; deciding it is input-space generation, not deterministic simulation (DESIGN.md section 5)",
 "C05": "pure function of one frame (1005/1006 decode and %.4f display): nothing for a simulator to schedule or fault (DESIGN.md section 5)",
 "C08": "pure arithmetic on decoded fields (range / phase range / rate formulas): no nondeterminism or fault surface (DESIGN.md section 5)",
 "C14": "pure function of (buffer, bit position, width): no nondeterminism or fault surface (DESIGN.md section 5)",
 "C20": "finite pure table (4096 types + sentinels): complete enumeration decides it, a simulator adds nothing (DESIGN.md section 5)",
}
extra = json.load(open(os.path.join(V, "scripts", "manifest_extra.json"))) if os.path.exists(os.path.join(V, "scripts", "manifest_extra.json")) else {}
claimed.update({k: tuple(v) for k, v in extra.get("claimed", {}).items()})
for k, v in extra.get("under_construction", {}).items():
    if k not in claimed:
        under_construction[k] = v

checks = []
for pid in sorted(claimed):
    ref, text = claimed[pid]
    checks.append({
        "property_id": pid,
        "quick_cmd": f"bin/vcheck run {pid} --tier quick",
        "thorough_cmd": f"bin/vcheck run {pid} --tier thorough",
        "evidence_file": f"/verif/evidence/{pid}.json",
        "replay_cmd_template": "bin/vcheck replay {path}",
        "engine": "vsim",
        "level_claimed": {
            "category": "exploration",
            "text": "Seeded search over schedules and fault sequences: many short deterministic simulated executions of the real (overlay-instrumented) code under a gate scheduler inside a testing/synctest bubble, every choice drawn from one seeded tape; " + text + ". A clean batch is evidence, not proof; every reported violation has been minimised and reproduced by replaying its tape in a fresh process.",
            "design_ref": "DESIGN.md section " + ref,
        },
        "level_note": "Trusted base: the vsim engine (rt scheduler, tape, overlay rewriter), Go 1.26.8 testing/synctest (fake clock, quiescence), the generator's independent CRC-24Q and ground truth. Assumes the instrumented copy behaves like the original apart from scheduling. Enumerated sub-batches (close after every byte, every single-bit flip, truncation at every byte) are exhaustive only for the streams drawn in that run.",
        "technique": "deterministic simulation with fault injection: seeded gate scheduler + choice tape in a synctest bubble, tape shrinking, fresh-process replay",
    })

m = {
 "version": 1,
 "setup_cmd": "bash scripts/setup.sh",
 "hooks": {
   "guard": "verif",
   "enable": "no hook code is committed in /repo: every check instruments the current working tree at check time with vsim-instr (go/ast rewriter) and builds with `go1.26.8 test -c -tags verif -overlay=<scratch>/overlay.json -modfile=<scratch>/go.mod`; /repo is never written",
   "baseline_off_cmd": "bash scripts/baseline.sh",
   "source_commits": [],
   "add_only": True,
 },
 "engines": [{"name": "vsim", "path": "/verif/vsim", "serves_properties": sorted(claimed), "kind_free_text": "deterministic simulator: gate scheduler in a testing/synctest bubble, seeded choice tape with shrinking, overlay instrumentation, simulated sources/sinks/conns/GNSS device"}],
 "checks": checks,
 "not_applicable": [{"property_id": k, "reason": v} for k, v in sorted({**na, **under_construction}.items())],
 "notes": "Defects repaired by fix: commits and open findings are listed in known_findings.jsonl; see DESIGN.md sections 6 and 10.",
}
json.dump(m, open(os.path.join(V, "MANIFEST.json"), "w"), indent=1)
print("MANIFEST.json:", len(checks), "checks,", len(m["not_applicable"]), "not applicable")
