#!/bin/bash
# usage: mutant.sh <patch.diff> <property>...   — applies a seeded change to a scratch
# worktree of /repo (never to /repo itself), runs the named quick checks against it
# and removes the worktree.  Evidence files are restored afterwards.
set -u
PATCH=$(readlink -f "$1"); shift
W=$(mktemp -d /tmp/mut-XXXXXX)
git -C /repo worktree add -q --detach "$W/repo" HEAD || exit 2
trap 'git -C /repo worktree remove --force "$W/repo" 2>/dev/null; rm -rf "$W"; git -C /verif checkout -q -- evidence 2>/dev/null' EXIT
if ! git -C "$W/repo" apply "$PATCH"; then echo "patch does not apply"; exit 2; fi
if [ "${BASELINE:-1}" = 1 ]; then /verif/scripts/baseline.sh "$W/repo" | head -3; fi
for p in "$@"; do
  VCHECK_REPO="$W/repo" /verif/bin/vcheck run "$p" --tier "${TIER:-quick}" 2>&1 | grep -E "^VIOLATION|violation class|^KNOWN|quick:|thorough:|vcheck:|INFRA" | cut -c1-400
  echo "exit=$? ($p)"
done
