package env

import (
	"errors"
	"fmt"
	"net"
	"net/http"
	"sync"

	"verif/vsim/rt"
)

// Net is a simulated network for programs whose net.Listen / net.Dial and HTTP
// service registration went through the rt seam.  Listening sockets and
// connections are simulated objects; a harness plays the remote peers: it
// connects to a listener with Connect and answers outgoing calls through OnDial.
type Net struct {
	T         *rt.Tape
	mu        sync.Mutex // guards the maps only; never held across a yield
	Listeners map[string]*Listener
	// OnDial is called (on the dialling goroutine) for every outgoing call; it
	// returns the program's end of the new connection.
	OnDial func(network, addr string) (net.Conn, error)
	// HTTP service of the program: pattern -> handler, and the addresses served
	Handlers map[string]func(http.ResponseWriter, *http.Request)
	Served   []string
	Listens  int
	Dials    int
	forever  chan struct{}
}

func NewNet(t *rt.Tape) *Net {
	return &Net{T: t, Listeners: map[string]*Listener{}, Handlers: map[string]func(http.ResponseWriter, *http.Request){}, forever: make(chan struct{})}
}

// Listener is a simulated listening socket.
type Listener struct {
	Address string
	queue   []net.Conn
	closed  bool
	wake    chan struct{}
	Accepts int
}

func (n *Net) Listen(network, addr string) (net.Listener, error) {
	rt.Yield("net.Listen " + addr)
	n.mu.Lock()
	defer n.mu.Unlock()
	n.Listens++
	if l, ok := n.Listeners[addr]; ok && !l.closed {
		return nil, fmt.Errorf("listen %s %s: bind: address already in use", network, addr)
	}
	l := &Listener{Address: addr, wake: make(chan struct{}, 1)}
	n.Listeners[addr] = l
	return l, nil
}

func (n *Net) Dial(network, addr string) (net.Conn, error) {
	rt.Yield("net.Dial " + addr)
	n.Dials++
	if n.OnDial == nil {
		return nil, fmt.Errorf("dial %s %s: connect: connection refused", network, addr)
	}
	return n.OnDial(network, addr)
}

func (n *Net) HandleFunc(pattern string, h func(http.ResponseWriter, *http.Request)) {
	n.mu.Lock()
	defer n.mu.Unlock()
	if _, dup := n.Handlers[pattern]; dup {
		panic("http: multiple registrations for " + pattern)
	}
	n.Handlers[pattern] = h
}

// ListenAndServe records the address and never returns (the service runs until
// the process ends); requests are made by calling the registered handlers.
func (n *Net) ListenAndServe(addr string, h http.Handler) error {
	n.mu.Lock()
	n.Served = append(n.Served, addr)
	n.mu.Unlock()
	rt.Yield("http.ListenAndServe " + addr)
	<-n.forever
	return errors.New("http: Server closed")
}

// Listening reports the open listener on addr, or nil.
func (n *Net) Listening(addr string) *Listener {
	n.mu.Lock()
	defer n.mu.Unlock()
	if l, ok := n.Listeners[addr]; ok && !l.closed {
		return l
	}
	return nil
}

// Connect queues the program's end of a new connection on the listener (a
// client's call, completed by the kernel before the program accepts it).
func (l *Listener) Connect(programEnd net.Conn) {
	l.queue = append(l.queue, programEnd)
	signal(l.wake)
}

func (l *Listener) Accept() (net.Conn, error) {
	for {
		rt.Yield("listener.Accept " + l.Address)
		if l.closed {
			return nil, ErrClosed
		}
		if len(l.queue) > 0 {
			c := l.queue[0]
			l.queue = l.queue[1:]
			l.Accepts++
			if len(l.queue) > 0 {
				signal(l.wake)
			}
			rt.Progress()
			return c, nil
		}
		<-l.wake
		rt.Yield("listener.Accept woke " + l.Address)
	}
}

func (l *Listener) Close() error {
	rt.Yield("listener.Close " + l.Address)
	if l.closed {
		return ErrClosed
	}
	l.closed = true
	signal(l.wake)
	return nil
}

func (l *Listener) Addr() net.Addr { return addr(l.Address) }
