// Package env holds the simulated environment objects: byte sources and sinks
// and network connections.  Every method that the code under test can call
// starts with a yield, so the scheduler decides when the environment acts.
package env

import (
	"errors"
	"io"
	"net"
	"time"

	"verif/vsim/rt"
)

// ---- Source ----------------------------------------------------------------------

// Interruption is a source fault: at byte offset At the source reports EOF
// (or an i/o timeout, or a fatal error) and stays silent for Silence of
// simulated time (negative: for ever) before it resumes.
type Interruption struct {
	At      int
	Silence time.Duration
	Timeout bool // "i/o timeout" instead of io.EOF
	Fatal   bool // some other read error: the reader must stop
	fired   bool
}

var ErrTimeout = errors.New("read /dev/ttyS0: i/o timeout")
var ErrFatal = errors.New("read /dev/ttyS0: input/output error")

// Source is a simulated io.Reader.  By default it never returns data together
// with an error (an *os.File never does); with DataWithErr it may, as the
// io.Reader contract allows.
type Source struct {
	T        *rt.Tape
	Data     []byte
	Pos      int
	Ints     []Interruption
	MaxChunk int  // 0: 64
	ZeroReads bool // may return (0, nil)
	DataWithErr bool // the data before an error may be returned together with it
	DataErrs  int
	Handed   []byte // every byte actually handed to the reader
	active   *Interruption
	silentTo time.Time
	// counters
	Reads, EOFs, Timeouts, Fatals, ZeroN int
	EndEOFs                              int
	Marks                                []int // offsets at which chunk boundaries fell
}

func (r *Source) Read(p []byte) (int, error) {
	rt.Yield("source.Read")
	r.Reads++
	if len(p) == 0 {
		return 0, nil
	}
	for {
		if r.active != nil {
			if r.active.Fatal {
				r.Fatals++
				return 0, ErrFatal
			}
			if r.active.Silence < 0 || time.Now().Before(r.silentTo) || !r.active.fired {
				r.active.fired = true
				if r.active.Timeout {
					r.Timeouts++
					return 0, ErrTimeout
				}
				r.EOFs++
				return 0, io.EOF
			}
			r.active = nil
		}
		if len(r.Ints) > 0 && r.Ints[0].At <= r.Pos {
			r.active = &r.Ints[0]
			r.Ints = r.Ints[1:]
			if r.active.Silence >= 0 {
				r.silentTo = time.Now().Add(r.active.Silence)
			}
			continue
		}
		break
	}
	if r.Pos >= len(r.Data) {
		r.EndEOFs++
		return 0, io.EOF
	}
	if r.ZeroReads && r.T.D(8) == 7 {
		r.ZeroN++
		return 0, nil
	}
	max := r.MaxChunk
	if max <= 0 {
		max = 64
	}
	n := 1 + r.T.DF(max, func(g *rt.Rand) int {
		switch g.Weighted(4, 3, 2, 1) {
		case 0:
			return 0
		case 1:
			return g.Intn(4)
		case 2:
			return g.Intn(max)
		}
		return max - 1
	})
	if n > len(p) {
		n = len(p)
	}
	lim := len(r.Data)
	if len(r.Ints) > 0 && r.Ints[0].At < lim {
		lim = r.Ints[0].At
	}
	if r.Pos+n > lim {
		n = lim - r.Pos
	}
	copy(p, r.Data[r.Pos:r.Pos+n])
	r.Handed = append(r.Handed, r.Data[r.Pos:r.Pos+n]...)
	r.Pos += n
	if r.DataWithErr && n > 0 && r.Pos == lim && r.T.D(3) == 0 {
		// io.Reader allows the last data before an error to come with the
		// error itself (iotest.DataErrReader, network and decompressing readers)
		r.DataErrs++
		if r.Pos >= len(r.Data) && !(len(r.Ints) > 0 && r.Ints[0].At <= r.Pos) {
			r.EndEOFs++
			return n, io.EOF
		}
		r.active = &r.Ints[0]
		r.Ints = r.Ints[1:]
		r.active.fired = true
		if r.active.Silence >= 0 {
			r.silentTo = time.Now().Add(r.active.Silence)
		}
		switch {
		case r.active.Fatal:
			r.Fatals++
			return n, ErrFatal
		case r.active.Timeout:
			r.Timeouts++
			return n, ErrTimeout
		}
		r.EOFs++
		return n, io.EOF
	}
	return n, nil
}

// ---- Sink ------------------------------------------------------------------------

// Sink is a simulated io.Writer.  A write counts as completed only when it
// returns; Latency is simulated time per call, ExtraYields additional
// scheduling points per call ("blocks per call").
type Sink struct {
	Name        string
	Latency     time.Duration
	ExtraYields int
	Buf         []byte // bytes of completed writes
	Calls       int
	InFlight    int // writes started but not completed
}

func (w *Sink) Write(p []byte) (int, error) {
	rt.Yield("sink.Write " + w.Name)
	w.InFlight++
	for i := 0; i < w.ExtraYields; i++ {
		rt.Yield("sink.Write busy " + w.Name)
	}
	if w.Latency > 0 {
		time.Sleep(w.Latency)
		rt.Yield("sink.Write slept " + w.Name)
	}
	w.Buf = append(w.Buf, p...)
	w.Calls++
	w.InFlight--
	return len(p), nil
}

// ---- Conn ------------------------------------------------------------------------

// pipeHalf is one direction of a simulated TCP connection: an ordered,
// loss-free byte queue.
type pipeHalf struct {
	buf    []byte
	closed bool // writer side closed: reader gets EOF after draining
}

// Conn is one end of a simulated TCP connection.
type Conn struct {
	Name     string
	T        *rt.Tape
	in       *pipeHalf // we read from here
	out      *pipeHalf // we write here
	closed   bool
	MaxChunk int
	Written  []byte // everything this end wrote
	ReadBuf  []byte // everything this end read
	EOFPolls int    // reads that returned EOF
	// ReadErrAfterClose is returned by Read after this end was closed.
}

var ErrClosed = errors.New("use of closed network connection")

// Pipe returns the two ends of a simulated connection.
func Pipe(t *rt.Tape, a, b string) (*Conn, *Conn) {
	ab, ba := &pipeHalf{}, &pipeHalf{}
	return &Conn{Name: a, T: t, in: ba, out: ab}, &Conn{Name: b, T: t, in: ab, out: ba}
}

// Read never blocks: with no data available it reports a zero-length read
// with a timeout-style error?  No — a real blocking read would park the
// goroutine.  The simulated read waits by yielding until data, EOF or close.
func (c *Conn) Read(p []byte) (int, error) {
	for {
		rt.Yield("conn.Read " + c.Name)
		if c.closed {
			return 0, ErrClosed
		}
		if len(c.in.buf) > 0 {
			max := c.MaxChunk
			if max <= 0 {
				max = 64
			}
			n := 1 + c.T.DF(max, func(g *rt.Rand) int {
				switch g.Weighted(3, 3, 3) {
				case 0:
					return 0
				case 1:
					return g.Intn(max)
				}
				return max - 1
			})
			if n > len(p) {
				n = len(p)
			}
			if n > len(c.in.buf) {
				n = len(c.in.buf)
			}
			copy(p, c.in.buf[:n])
			c.ReadBuf = append(c.ReadBuf, c.in.buf[:n]...)
			c.in.buf = c.in.buf[n:]
			return n, nil
		}
		if c.in.closed {
			c.EOFPolls++
			if c.EOFPolls > 1 {
				// a peer that polls on EOF must not starve the run of steps: the
				// second and later polls cost simulated time
				time.Sleep(time.Millisecond)
				rt.Yield("conn.Read eof-poll " + c.Name)
			}
			return 0, io.EOF
		}
		// nothing to read yet: wait (in simulated time) so that a polling
		// peer cannot starve the run of steps
		time.Sleep(time.Millisecond)
	}
}

func (c *Conn) Write(p []byte) (int, error) {
	rt.Yield("conn.Write " + c.Name)
	if c.closed {
		return 0, ErrClosed
	}
	if c.out.closed {
		return 0, errors.New("write: broken pipe")
	}
	c.out.buf = append(c.out.buf, p...)
	c.Written = append(c.Written, p...)
	return len(p), nil
}

func (c *Conn) Close() error {
	rt.Yield("conn.Close " + c.Name)
	if c.closed {
		return ErrClosed
	}
	c.closed = true
	c.out.closed = true
	return nil
}

// Pending returns the number of bytes written by the peer and not yet read.
func (c *Conn) Pending() int { return len(c.in.buf) }

type addr string

func (a addr) Network() string { return "sim" }
func (a addr) String() string  { return string(a) }

func (c *Conn) LocalAddr() net.Addr                { return addr(c.Name) }
func (c *Conn) RemoteAddr() net.Addr               { return addr(c.Name + "-peer") }
func (c *Conn) SetDeadline(t time.Time) error      { return nil }
func (c *Conn) SetReadDeadline(t time.Time) error  { return nil }
func (c *Conn) SetWriteDeadline(t time.Time) error { return nil }
