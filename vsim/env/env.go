// Package env holds the simulated environment objects: byte sources and sinks
// and network connections.  Every method that the code under test can call
// starts with a yield, so the scheduler decides when the environment acts.
package env

import (
	"errors"
	"io"
	"net"
	"time"

	"verif/vsim/rt"
)

// ---- Source ----------------------------------------------------------------------

// Interruption is a source fault: at byte offset At the source reports EOF
// (or an i/o timeout, or a fatal error) and stays silent for Silence of
// simulated time (negative: for ever) before it resumes.
type Interruption struct {
	At      int
	Silence time.Duration
	Timeout bool // "i/o timeout" instead of io.EOF
	Mixed   bool // EOF and "i/o timeout" results alternate while the silence lasts
	Fatal   bool // some other read error: the reader must stop
	// ThenFatal: the EOF / time-out results (at least one) are followed, when the
	// silence ends, not by data but by some other read error - a device that goes
	// quiet and then fails.  The reader must stop there.
	ThenFatal bool
	fired     bool
	polls   int
}

var ErrTimeout = errors.New("read /dev/ttyS0: i/o timeout")
var ErrFatal = errors.New("read /dev/ttyS0: input/output error")

// Source is a simulated io.Reader.  By default it never returns data together
// with an error (an *os.File never does); with DataWithErr it may, as the
// io.Reader contract allows.
type Source struct {
	T           *rt.Tape
	Data        []byte
	Pos         int
	Ints        []Interruption
	MaxChunk    int  // 0: 64
	ZeroReads   bool // may return (0, nil)
	DataWithErr bool // the data before an error may be returned together with it
	DataErrs    int
	PauseOneIn  int // one read in PauseOneIn blocks for a quiet period first (0: never)
	Pauses      int
	quiet       int
	QuietBursts int
	fruitless   int
	Handed      []byte // every byte actually handed to the reader
	active      *Interruption
	silentTo    time.Time
	// counters
	Reads, EOFs, Timeouts, Fatals, ZeroN int
	EndEOFs                              int
	Marks                                []int // offsets at which chunk boundaries fell
}

// pollCost: a read that finds nothing takes time.  From the fourth consecutive
// fruitless poll on, each costs simulated time, doubling from 10 µs to 1 s, so
// that a caller which re-polls without sleeping still sees its clock advance
// (as it would in real time) instead of spinning for ever at one instant.
func (r *Source) pollCost() {
	r.fruitless++
	if r.fruitless <= 3 {
		return
	}
	d := 10 * time.Microsecond << uint(min(r.fruitless-4, 17))
	if d > time.Second {
		d = time.Second
	}
	time.Sleep(d)
	rt.Yield("source.Read (nothing there)")
}

func (r *Source) Read(p []byte) (int, error) {
	rt.Yield("source.Read")
	r.Reads++
	if len(p) == 0 {
		return 0, nil
	}
	for {
		if r.active != nil {
			if r.active.Fatal {
				// reported once: the reader has to stop on it.  A reader that carries
				// on regardless finds the device working again (a flaky line), so that
				// "kept reading after an error that must stop it" shows in what it got.
				r.Fatals++
				r.active = nil
				return 0, ErrFatal
			}
			if r.active.Silence < 0 || time.Now().Before(r.silentTo) || !r.active.fired {
				was := r.active.fired
				r.active.fired = true
				r.pollCost()
				if was && r.active.ThenFatal && r.active.Silence >= 0 && !time.Now().Before(r.silentTo) {
					r.Fatals++
					r.active = nil
					return 0, ErrFatal
				}
				if was && r.active.Silence >= 0 && !time.Now().Before(r.silentTo) {
					// the line came back while this read was waiting: the read returns
					// data, not a late "nothing there" (an error result always means the
					// source is still silent at the moment the caller sees it)
					r.active = nil
					continue
				}
				r.active.polls++
				if r.active.Timeout != (r.active.Mixed && r.active.polls%2 == 0) {
					r.Timeouts++
					return 0, ErrTimeout
				}
				r.EOFs++
				return 0, io.EOF
			}
			if r.active.ThenFatal {
				r.Fatals++
				r.active = nil
				return 0, ErrFatal
			}
			r.active = nil
		}
		if len(r.Ints) > 0 && r.Ints[0].At <= r.Pos {
			r.active = &r.Ints[0]
			r.Ints = r.Ints[1:]
			if r.active.Silence >= 0 {
				r.silentTo = time.Now().Add(r.active.Silence)
			}
			continue
		}
		break
	}
	if r.Pos >= len(r.Data) {
		r.EndEOFs++
		r.pollCost()
		return 0, io.EOF
	}
	r.fruitless = 0
	if r.PauseOneIn > 0 && r.T.D(r.PauseOneIn) == 0 {
		// a quiet line: the read blocks for a while of simulated time, then data comes
		d := []time.Duration{20 * time.Millisecond, 150 * time.Millisecond, 1200 * time.Millisecond, 30 * time.Second}[r.T.D(4)]
		r.Pauses++
		time.Sleep(d)
		rt.Yield("source.Read (after a quiet period)")
	}
	if r.quiet > 0 {
		// inside a burst of consecutive empty reads (a quiet line)
		r.quiet--
		r.ZeroN++
		return 0, nil
	}
	if r.ZeroReads && r.T.D(8) == 7 {
		r.ZeroN++
		if r.T.D(6) == 0 {
			// a long burst: readers with a "no progress" limit give up at 100
			r.quiet = []int{4, 98, 99, 100, 101, 260}[r.T.D(6)]
			r.QuietBursts++
		}
		return 0, nil
	}
	max := r.MaxChunk
	if max <= 0 {
		max = 64
	}
	n := 1 + r.T.DF(max, func(g *rt.Rand) int {
		switch g.Weighted(4, 3, 2, 1, 2) {
		case 0:
			return 0
		case 1:
			return g.Intn(4)
		case 2:
			return g.Intn(max)
		case 3:
			return max - 1
		}
		// buffer-sized chunks: powers of two and their neighbours
		v := (1 << uint(3+g.Intn(11))) - 2 + g.Intn(3)
		if v >= max {
			v = max - 1
		}
		return v
	})
	if n > len(p) {
		n = len(p)
	}
	lim := len(r.Data)
	if len(r.Ints) > 0 && r.Ints[0].At < lim {
		lim = r.Ints[0].At
	}
	if r.Pos+n > lim {
		n = lim - r.Pos
	}
	copy(p, r.Data[r.Pos:r.Pos+n])
	r.Handed = append(r.Handed, r.Data[r.Pos:r.Pos+n]...)
	r.Pos += n
	rt.Progress()
	if r.DataWithErr && n > 0 && r.Pos == lim && r.T.D(3) == 0 {
		// io.Reader allows the last data before an error to come with the
		// error itself (iotest.DataErrReader, network and decompressing readers)
		r.DataErrs++
		if r.Pos >= len(r.Data) && !(len(r.Ints) > 0 && r.Ints[0].At <= r.Pos) {
			r.EndEOFs++
			return n, io.EOF
		}
		r.active = &r.Ints[0]
		r.Ints = r.Ints[1:]
		r.active.fired = true
		if r.active.Silence >= 0 {
			r.silentTo = time.Now().Add(r.active.Silence)
		}
		switch {
		case r.active.Fatal:
			r.Fatals++
			return n, ErrFatal
		case r.active.Timeout:
			r.Timeouts++
			return n, ErrTimeout
		}
		r.EOFs++
		return n, io.EOF
	}
	return n, nil
}

// ---- Sink ------------------------------------------------------------------------

// Sink is a simulated io.Writer.  A write counts as completed only when it
// returns; Latency is simulated time per call, ExtraYields additional
// scheduling points per call ("blocks per call").
type Sink struct {
	Name        string
	Latency     time.Duration
	ExtraYields int
	Buf         []byte // bytes of completed writes
	Calls       int
	InFlight    int // writes started but not completed
}

func (w *Sink) Write(p []byte) (int, error) {
	rt.Yield("sink.Write " + w.Name)
	w.InFlight++
	for i := 0; i < w.ExtraYields; i++ {
		rt.Yield("sink.Write busy " + w.Name)
	}
	if w.Latency > 0 {
		time.Sleep(w.Latency)
		rt.Yield("sink.Write slept " + w.Name)
	}
	w.Buf = append(w.Buf, p...)
	w.Calls++
	w.InFlight--
	rt.Progress()
	return len(p), nil
}

// ---- Conn ------------------------------------------------------------------------

// pipeHalf is one direction of a simulated TCP connection: an ordered,
// loss-free byte queue with a bounded buffer (0 = unbounded).
type pipeHalf struct {
	buf    []byte
	cap    int
	closed bool          // writer side closed: reader gets EOF after draining
	data   chan struct{} // signalled when data arrives or the writer closes
	space  chan struct{} // signalled when the reader consumed something or closed
}

func newHalf(c int) *pipeHalf {
	return &pipeHalf{cap: c, data: make(chan struct{}, 1), space: make(chan struct{}, 1)}
}

func signal(ch chan struct{}) {
	select {
	case ch <- struct{}{}:
	default:
	}
}

// wait blocks (durably, inside the bubble) until ch is signalled or the
// deadline passes; it reports false on deadline.
func wait(ch chan struct{}, deadline time.Time, site string) bool {
	ok := true
	if deadline.IsZero() {
		<-ch
	} else {
		d := time.Until(deadline)
		if d <= 0 {
			return false
		}
		tm := time.NewTimer(d)
		select {
		case <-ch:
		case <-tm.C:
			ok = false
		}
		tm.Stop()
	}
	rt.Yield(site)
	return ok
}

// Conn is one end of a simulated TCP connection.  Writes block (in simulated
// time) while the peer's receive buffer is full; read and write deadlines are
// honoured against the simulated clock.
type Conn struct {
	Name     string
	T        *rt.Tape
	in       *pipeHalf // we read from here
	out      *pipeHalf // we write here
	closed   bool
	MaxChunk int
	Written  []byte // everything this end wrote (accepted into the pipe)
	ReadBuf  []byte // everything this end read
	EOFPolls int    // reads that returned EOF
	rdl, wdl time.Time
	// counters
	WriteBlocked, WriteTimeouts, ReadTimeouts int
}

var ErrClosed = errors.New("use of closed network connection")

type timeoutError struct{ op string }

func (e timeoutError) Error() string   { return e.op + " tcp: i/o timeout" }
func (e timeoutError) Timeout() bool   { return true }
func (e timeoutError) Temporary() bool { return true }

// Pipe returns the two ends of a simulated connection; bufCap bounds each
// direction's in-flight bytes (0 = unbounded).
func Pipe(t *rt.Tape, a, b string) (*Conn, *Conn) { return PipeCap(t, a, b, 0) }

func PipeCap(t *rt.Tape, a, b string, bufCap int) (*Conn, *Conn) {
	ab, ba := newHalf(bufCap), newHalf(bufCap)
	return &Conn{Name: a, T: t, in: ba, out: ab}, &Conn{Name: b, T: t, in: ab, out: ba}
}

// Read waits (by yielding, in simulated time) until data, EOF, close or the
// read deadline.
func (c *Conn) Read(p []byte) (int, error) {
	for {
		rt.Yield("conn.Read " + c.Name)
		if c.closed {
			return 0, ErrClosed
		}
		if len(c.in.buf) > 0 {
			max := c.MaxChunk
			if max <= 0 {
				max = 64
			}
			n := 1 + c.T.DF(max, func(g *rt.Rand) int {
				switch g.Weighted(3, 3, 3) {
				case 0:
					return 0
				case 1:
					return g.Intn(max)
				}
				return max - 1
			})
			if n > len(p) {
				n = len(p)
			}
			if n > len(c.in.buf) {
				n = len(c.in.buf)
			}
			copy(p, c.in.buf[:n])
			c.ReadBuf = append(c.ReadBuf, c.in.buf[:n]...)
			c.in.buf = c.in.buf[n:]
			rt.Progress()
			signal(c.in.space)
			if len(c.in.buf) > 0 || c.in.closed {
				signal(c.in.data)
			}
			return n, nil
		}
		if c.in.closed {
			c.EOFPolls++
			if c.EOFPolls > 1 {
				// a peer that polls on EOF must not starve the run of steps: the
				// second and later polls cost simulated time, doubling up to 10 s
				d := time.Millisecond << uint(min(c.EOFPolls-2, 14))
				if d > 10*time.Second {
					d = 10 * time.Second
				}
				time.Sleep(d)
				rt.Yield("conn.Read eof-poll " + c.Name)
			}
			return 0, io.EOF
		}
		// nothing to read yet: block until the peer writes or closes, this end is
		// closed, or the read deadline passes
		if !wait(c.in.data, c.rdl, "conn.Read woke "+c.Name) {
			c.ReadTimeouts++
			return 0, timeoutError{"read"}
		}
	}
}

func (c *Conn) Write(p []byte) (int, error) {
	written := 0
	blocked := false
	for {
		rt.Yield("conn.Write " + c.Name)
		if c.closed {
			return written, ErrClosed
		}
		if c.out.closed {
			return written, errors.New("write: broken pipe")
		}
		room := len(p) - written
		if c.out.cap > 0 {
			if free := c.out.cap - len(c.out.buf); free < room {
				room = free
			}
		}
		if room > 0 {
			c.out.buf = append(c.out.buf, p[written:written+room]...)
			c.Written = append(c.Written, p[written:written+room]...)
			written += room
			signal(c.out.data)
			rt.Progress()
		}
		if written == len(p) {
			return written, nil
		}
		// the peer's receive buffer is full: block until it reads or the deadline passes
		if !blocked {
			c.WriteBlocked++
			blocked = true
		}
		if !wait(c.out.space, c.wdl, "conn.Write woke "+c.Name) {
			c.WriteTimeouts++
			return written, timeoutError{"write"}
		}
	}
}

func (c *Conn) Close() error {
	rt.Yield("conn.Close " + c.Name)
	if c.closed {
		return ErrClosed
	}
	c.closed = true
	c.out.closed = true
	// wake whoever waits on either direction
	signal(c.out.data)
	signal(c.out.space)
	signal(c.in.data)
	signal(c.in.space)
	return nil
}

// Pending returns the number of bytes written by the peer and not yet read.
func (c *Conn) Pending() int { return len(c.in.buf) }

type addr string

func (a addr) Network() string { return "sim" }
func (a addr) String() string  { return string(a) }

func (c *Conn) LocalAddr() net.Addr                { return addr(c.Name) }
func (c *Conn) RemoteAddr() net.Addr               { return addr(c.Name + "-peer") }
func (c *Conn) SetDeadline(t time.Time) error      { c.rdl, c.wdl = t, t; return nil }
func (c *Conn) SetReadDeadline(t time.Time) error  { c.rdl = t; return nil }
func (c *Conn) SetWriteDeadline(t time.Time) error { c.wdl = t; return nil }
