package env

import (
	"io"
	"os"
	"strings"
	"syscall"
	"time"

	"verif/vsim/rt"
)

// Disk is a simulated disk in front of the real temporary files that the
// daily writers of a run open (installed with rt.SetFileHook).  Only files
// whose name ends in one of Suffixes are faulted; the others pass through.
// Whatever the simulated disk accepts is written to the real file, so the
// harnesses go on reading the directory as before.
//
// Fault kinds: a slow disk (simulated time per write, the caller parked
// meanwhile), a transient I/O error (nothing written), a short write (a prefix
// written, the error reported), a full disk (ENOSPC from some byte on, short
// write at the boundary) that stays full or gets space again after a number of
// refused writes.
type Disk struct {
	T        *rt.Tape
	Suffixes []string
	Latency  time.Duration // per write
	SlowOne  int           // 0: every write takes Latency; n: one write in n does
	ErrMode  int           // DiskOK, DiskTransient, DiskFull, DiskFullThenFreed
	ErrOneIn int           // DiskTransient: one write in n fails or is cut short
	Capacity int           // DiskFull*: bytes accepted before the disk is full
	FreeIn   int           // DiskFullThenFreed: refused writes before space returns

	Accepted  map[string][]byte // per file: the bytes the disk took
	Writes    int
	Errors    int // writes that returned an error
	Shorts    int // of those, writes that took a non-empty prefix
	Refused   int // ENOSPC results
	SlowN     int
	used      int
	refusedIn int
}

const (
	DiskOK = iota
	DiskTransient
	DiskFull
	DiskFullThenFreed
)

func (d *Disk) Faulty() bool { return d.ErrMode != DiskOK }

func (d *Disk) Describe() map[string]any {
	return map[string]any{"latency": d.Latency.String(), "slow_one_in": d.SlowOne, "err_mode": []string{"none", "transient-eio-and-short-writes", "full", "full-then-freed"}[d.ErrMode],
		"err_one_in": d.ErrOneIn, "capacity": d.Capacity, "free_after_refused": d.FreeIn}
}

// Hook is the rt.FileHook of the disk.
func (d *Disk) Hook(name string, f *os.File) io.Writer {
	for _, s := range d.Suffixes {
		if strings.HasSuffix(name, s) {
			return &diskFile{d: d, name: name, f: f}
		}
	}
	return f
}

type diskFile struct {
	d    *Disk
	name string
	f    *os.File
}

func (df *diskFile) Write(p []byte) (int, error) {
	d := df.d
	rt.Yield("disk.Write")
	d.Writes++
	if d.Latency > 0 && (d.SlowOne <= 1 || d.T.DW(d.SlowOne-1, 1) == 1) {
		d.SlowN++
		time.Sleep(d.Latency)
		rt.Yield("disk.Write slept")
	}
	n := len(p)
	var err error
	switch d.ErrMode {
	case DiskTransient:
		if len(p) > 0 && d.T.DW(max(d.ErrOneIn-1, 1), 1) == 1 {
			err = syscall.EIO
			n = 0
			if len(p) > 1 && d.T.D(2) == 1 {
				n = 1 + d.T.D(len(p)-1) // a prefix got out
			}
		}
	case DiskFull, DiskFullThenFreed:
		if d.ErrMode == DiskFullThenFreed && d.refusedIn >= d.FreeIn && d.FreeIn > 0 {
			d.used = 0 // somebody made room
			d.Capacity = 1 << 40
		}
		if room := d.Capacity - d.used; room < len(p) {
			if room < 0 {
				room = 0
			}
			n, err = room, syscall.ENOSPC
			d.Refused++
			d.refusedIn++
		}
	}
	if n > 0 {
		if _, werr := df.f.Write(p[:n]); werr != nil {
			panic("vsim disk: temporary file: " + werr.Error())
		}
		if d.Accepted == nil {
			d.Accepted = map[string][]byte{}
		}
		d.Accepted[df.name] = append(d.Accepted[df.name], p[:n]...)
		d.used += n
	}
	if err != nil {
		d.Errors++
		if n > 0 {
			d.Shorts++
		}
		return n, &os.PathError{Op: "write", Path: df.name, Err: err}
	}
	rt.Progress()
	return n, nil
}

// GenDisk draws a disk for the files with the given suffixes.  allowErrors
// selects whether error faults may be drawn (they are kept out of runs whose
// oracle demands a complete file).
func GenDisk(t *rt.Tape, allowErrors bool, suffixes ...string) *Disk {
	d := &Disk{T: t, Suffixes: suffixes}
	switch t.SW(5, 2, 2) {
	case 1:
		d.Latency = []time.Duration{time.Millisecond, 20 * time.Millisecond, 250 * time.Millisecond, 3 * time.Second, 2 * time.Minute}[t.S(5)]
	case 2:
		d.Latency = []time.Duration{150 * time.Millisecond, 5 * time.Second, 2 * time.Minute}[t.S(3)]
		d.SlowOne = []int{2, 5, 30}[t.S(3)]
	}
	if allowErrors {
		switch t.SW(6, 2, 2, 1) {
		case 1:
			d.ErrMode = DiskTransient
			d.ErrOneIn = []int{2, 5, 30}[t.S(3)]
		case 2:
			d.ErrMode = DiskFull
			d.Capacity = t.S(3) * t.S(5000)
		case 3:
			d.ErrMode = DiskFullThenFreed
			d.Capacity = t.S(3) * t.S(5000)
			d.FreeIn = 1 + t.S(6)
		}
	}
	return d
}
