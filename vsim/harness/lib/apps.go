package lib

import (
	"bytes"
	"fmt"
	"io"
	"os"
	"path/filepath"
	"strings"
	"time"

	lcfg "github.com/goblimey/go-ntrip/apps/rtcmlogger/config"
	"github.com/goblimey/go-ntrip/jsonconfig"
	rtcm "github.com/goblimey/go-ntrip/rtcm/handler"
	"log/slog"
	"verif/vsim/env"
	"verif/vsim/gnss"
	"verif/vsim/hx"
	"verif/vsim/rt"
)

// EntryFunc is the message-handling entry point of displayrtcm3 and rtcmfilter.
type EntryFunc func(startTime time.Time, reader io.Reader, writer io.Writer, config *jsonconfig.Config)

// nearMidnight draws the moment at which the program of a run starts: mostly
// right away (the bubble's clock starts at midnight, so the daily files never
// roll over in a short run), now and then a few seconds before the next
// midnight, so that the daily writer's rotation happens while data flows.
// The returned function is called inside the run, before the program starts.
func nearMidnight(t *rt.Tape, o *hx.Outcome, s *rt.Sim) func() {
	if t.SW(9, 1) == 0 {
		return func() {}
	}
	off := []time.Duration{-5 * time.Second, -700 * time.Millisecond, -time.Millisecond, 0, 2 * time.Second}[t.S(5)]
	o.Fault("clock:start-just-before-midnight")
	return func() {
		now := time.Now()
		next := time.Date(now.Year(), now.Month(), now.Day()+1, 0, 0, 0, 0, now.Location())
		// (in steps shorter than the scheduler's idle horizon, which would take a
		// single day-long sleep for a deadlock)
		for left := next.Sub(now) + off; left > 0; left -= 6 * time.Hour {
			time.Sleep(min(left, 6*time.Hour))
			rt.Yield("waiting for the evening")
		}
		s.Lead = time.Since(now)
	}
}

// diskProbes records what the simulated disk did in a run.
func diskProbes(o *hx.Outcome, d *env.Disk) {
	if !rt.DiskSeamPresent.Load() {
		return
	}
	o.ProbeN("disk-writes", d.Writes)
	if d.SlowN > 0 {
		o.Fault("disk:slow-write")
		o.ProbeN("disk-slow-writes", d.SlowN)
	}
	if d.Errors > 0 {
		switch d.ErrMode {
		case env.DiskTransient:
			o.Fault("disk:transient-io-error")
		case env.DiskFull:
			o.Fault("disk:full")
		case env.DiskFullThenFreed:
			o.Fault("disk:full-then-freed")
		}
		o.ProbeN("disk-write-errors", d.Errors)
	}
	if d.Shorts > 0 {
		o.Fault("disk:short-write")
	}
}

func genSink(t *rt.Tape, name string) *env.Sink {
	lat := []time.Duration{0, 0, time.Millisecond, 7 * time.Millisecond, 50 * time.Millisecond, 3 * time.Second, 2 * time.Minute}[t.SW(40, 20, 20, 10, 10, 3, 2)]
	return &env.Sink{Name: name, Latency: lat, ExtraYields: t.SW(5, 2, 1, 1) * (1 + t.S(4))}
}

// Entries in a readable log are counted by the "Frame length " line that every
// rendered message carries exactly once.  Whether the code under test still
// renders that line is probed once; if it does not (the wording is not part of
// any property) the marker falls back to the first line of a rendered message.
var entryMarker = func() []byte {
	probe := func(raw []byte) string {
		m := rtcm.NewNonRTCM(raw)
		m.LogLevel = slog.LevelDebug
		return m.String()
	}
	a := probe([]byte("abc"))
	if strings.Count(a, "Frame length ") == 1 {
		return []byte("Frame length ")
	}
	// first line of a rendered non-RTCM message (every entry of the logs the
	// checks count is preceded by the same code path)
	if i := strings.IndexByte(a, '\n'); i > 0 {
		return []byte(a[:i])
	}
	return []byte("Frame length ")
}()

func countHeaders(b []byte) int { return bytes.Count(b, entryMarker) }

// appStream draws a byte stream for the application-level properties: clean
// (ground truth known to the generator) or noisy (reference = sequential framing).
func appStream(c *hx.Ctx, o *hx.Outcome, minFrames int) (segs []gnss.Segment, wire []byte, clean bool) {
	bulkOneIn := 150
	if c.Thorough() {
		bulkOneIn = 40
	}
	if c.T.SBool(1, bulkOneIn) {
		// state that has to build up: hundreds or thousands of tiny messages
		n := []int{140, 300, 700, 4200, 8400}[c.T.S(5)]
		segs = gnss.GenBulk(c.T, n)
		o.Probe("bulk-stream")
		o.Probe(fmt.Sprintf("bulk-stream-%d-messages", n))
		return segs, gnss.Concat(segs), true
	}
	fitOneIn := 60
	if c.Thorough() {
		fitOneIn = 20
	}
	if c.T.SBool(1, fitOneIn) {
		segs = gnss.GenBoundaryFit(c.T)
		o.Probe("boundary-fitted-stream")
		return segs, gnss.Concat(segs), true
	}
	if c.T.SBool(1, 2) {
		segs = genCleanStream(c, o, minFrames)
		return segs, gnss.Concat(segs), true
	}
	segs, wire, _ = genNoisyStream(c, o)
	return segs, wire, false
}

// validFrames returns the concatenation of the valid frames of the stream in
// order: generator ground truth for clean streams, otherwise the typed
// messages of the sequential reference.
func validFrames(segs []gnss.Segment, wire []byte, clean bool) (want []byte, nMsgs int, refPanic string) {
	ref, p := sequentialRef(wire)
	if p != "" {
		return nil, 0, p
	}
	nMsgs = len(ref)
	if clean {
		for _, e := range gnss.Expected(segs) {
			if e.Type >= 0 {
				want = append(want, e.Raw...)
			}
		}
		return
	}
	for _, m := range ref {
		if m.MessageType >= 0 {
			want = append(want, m.RawData...)
		}
	}
	return
}

// ---- C11: when message handling returns, all output has been written ----------------

func C11(app string, entry EntryFunc, display bool) func(*hx.Ctx) *hx.Outcome {
	return func(c *hx.Ctx) *hx.Outcome {
		o := &hx.Outcome{}
		t := c.T
		segs, wire, _ := appStream(c, o, 1)
		o.ScenHash = gnss.Hash(wire)
		sink := genSink(t, "out")
		src := &env.Source{T: t, Data: wire, MaxChunk: []int{1, 16, 512, 4096}[t.S(4)], DataWithErr: t.SBool(1, 3), PauseOneIn: []int{0, 0, 0, 3, 40}[t.S(5)]}
		cfg := jsonconfig.Config{}
		if !display {
			// rtcmfilter: every configuration of its optional logs
			sw := t.S(4)
			cfg = jsonconfig.Config{DisplayMessages: sw&1 != 0, RecordMessages: sw&2 != 0, MessageLogDirectory: c.TempDir()}
			o.Probe(fmt.Sprintf("config:display=%v,record=%v", cfg.DisplayMessages, cfg.RecordMessages))
		}
		// slow disk under the optional logs (a slow log must not make the output late)
		disk := env.GenDisk(t, false, ".rtcm", ".txt")
		rt.SetFileHook(disk.Hook)
		defer rt.SetFileHook(nil)
		defer func() { diskProbes(o, disk) }()
		if c.Detail {
			o.Sample = map[string]any{"app": app, "log_disk": disk.Describe(), "display_log": cfg.DisplayMessages, "record_log": cfg.RecordMessages, "segments": gnss.Describe(segs), "wire_len": len(wire), "sink_latency": sink.Latency.String(), "sink_extra_yields": sink.ExtraYields, "max_chunk": src.MaxChunk}
		}
		if sink.Latency > 0 {
			o.Fault("sink:latency")
		}
		if sink.ExtraYields > 0 {
			o.Fault("sink:blocks-per-call")
		}
		s := c.NewSim()
		s.ChooseStrategy()
		s.SetStarveKey([]string{"main.go", "file_handler", "handler.go", "app_core"}[t.D(4)])
		fineGrained(c, s, o)
		s.Budget = 200*(len(wire)+32) + 20000
		atReturn, inflight := -1, 0
		verdict := s.Run(func() {
			entry(startTime, src, sink, &cfg)
			atReturn, inflight = len(sink.Buf), sink.InFlight
			s.Logf("entry returned: %d bytes written, %d writes in flight", atReturn, inflight)
		})
		o.Verdict, o.Strategy = verdict, rt.StratNames[s.Strategy]
		o.SimTime = s.Elapsed()
		final := len(sink.Buf)
		if len(s.Panics) > 0 {
			o.Fail("C11/panic", "%s: %s", app, firstLine(s.Panics[0]))
			return o
		}
		if atReturn < 0 {
			o.Fail("C11/no-return", "%s: HandleMessages did not return (verdict %s, %d steps)", app, verdict, s.Steps)
			return o
		}
		if inflight > 0 {
			o.Probe("write-in-flight-at-return")
		}
		if atReturn != final {
			o.Probe("writer-busy-at-return")
			o.Fail("C11/return-before-write", "%s: when HandleMessages returned %d bytes had been completely written, %d at quiescence (%d write calls in flight at return; sink latency %v, %d blocks per call)", app, atReturn, final, inflight, sink.Latency, sink.ExtraYields)
		}
		// the quiescent output must itself be complete
		want, nMsgs, refPanic := validFrames(segs, wire, false)
		if refPanic != "" {
			o.Fail("C11/panic", "sequential framing panicked: %s", refPanic)
			return o
		}
		if display {
			if h := countHeaders(sink.Buf); h != nMsgs {
				o.Fail("C11/output-incomplete", "%s: %d messages displayed at quiescence, the input holds %d", app, h, nMsgs)
			}
		} else if !bytes.Equal(sink.Buf, want) {
			o.Fail("C11/output-incomplete", "%s: output at quiescence is %d bytes, the valid frames of the input are %d bytes", app, len(sink.Buf), len(want))
		}
		o.Nontrivial = nMsgs > 0
		return o
	}
}

// ---- C10: rtcmfilter emits exactly the valid frames ------------------------------------

// readOne returns the concatenation, in name (= date) order, of the daily files
// with the given prefix and suffix, and how many there are.  A simulated run
// that crosses midnight legitimately leaves more than one daily file.
func readOne(dir, prefix, suffix string) ([]byte, int) {
	ents, _ := os.ReadDir(dir) // sorted by name
	var data []byte
	n := 0
	for _, e := range ents {
		if strings.HasPrefix(e.Name(), prefix) && strings.HasSuffix(e.Name(), suffix) {
			b, err := os.ReadFile(filepath.Join(dir, e.Name()))
			if err == nil {
				data = append(data, b...)
				n++
			}
		}
	}
	return data, n
}

func C10(entry EntryFunc) func(*hx.Ctx) *hx.Outcome {
	return func(c *hx.Ctx) *hx.Outcome {
		o := &hx.Outcome{}
		t := c.T
		segs, wire, clean := appStream(c, o, 0)
		sw := t.S(4)
		cfg := jsonconfig.Config{DisplayMessages: sw&1 != 0, RecordMessages: sw&2 != 0, MessageLogDirectory: c.TempDir()}
		o.ScenHash = gnss.Hash(wire) ^ uint64(sw)
		o.Probe(fmt.Sprintf("config:display=%v,record=%v", cfg.DisplayMessages, cfg.RecordMessages))
		sink := genSink(t, "out")
		src := &env.Source{T: t, Data: wire, MaxChunk: []int{1, 16, 512, 4096}[t.S(4)], ZeroReads: t.SBool(1, 5), DataWithErr: t.SBool(1, 3), PauseOneIn: []int{0, 0, 0, 3, 40}[t.S(5)]}
		// the disk under the optional logs may be slow (no write errors here: the
		// statement demands complete logs and says nothing about a failing disk)
		disk := env.GenDisk(t, false, ".rtcm", ".txt")
		rt.SetFileHook(disk.Hook)
		defer rt.SetFileHook(nil)
		if c.Detail {
			o.Sample = map[string]any{"segments": gnss.Describe(segs), "wire_len": len(wire), "wire_hex": hexShort(wire), "display": cfg.DisplayMessages, "record": cfg.RecordMessages,
				"clean_stream": clean, "sink_latency": sink.Latency.String(), "sink_extra_yields": sink.ExtraYields, "max_chunk": src.MaxChunk, "log_disk": disk.Describe()}
		}
		want, nMsgs, refPanic := validFrames(segs, wire, clean)
		s := c.NewSim()
		s.ChooseStrategy()
		s.SetStarveKey([]string{"main.go:1", "main.go", "file_handler", "handler.go"}[t.D(4)])
		fineGrained(c, s, o)
		s.Budget = 300*(len(wire)+32) + 30000 + 40*nMsgs
		returned := false
		atReturn := -1
		preStart := nearMidnight(t, o, s)
		verdict := s.Run(func() {
			preStart()
			entry(startTime, src, sink, &cfg)
			returned = true
			atReturn = len(sink.Buf)
		})
		o.Verdict, o.Strategy = verdict, rt.StratNames[s.Strategy]
		diskProbes(o, disk)
		if len(s.Panics) > 0 {
			o.Fail("C10/panic", "%s", firstLine(s.Panics[0]))
			return o
		}
		if returned && atReturn != len(sink.Buf) {
			// the program exits when HandleMessages returns: what has not been
			// written by then is omitted from its output (the output writer only;
			// the optional logs are judged at quiescence)
			o.Fail("C10/output-omitted-at-exit", "when HandleMessages returned (the program exits there) %d output bytes had been written, %d at quiescence (display=%v record=%v)", atReturn, len(sink.Buf), cfg.DisplayMessages, cfg.RecordMessages)
		}
		if refPanic != "" {
			o.Fail("C10/panic", "sequential framing panicked: %s", refPanic)
			return o
		}
		if !returned {
			o.Fail("C10/no-return", "HandleMessages did not return (verdict %s, %d steps)", verdict, s.Steps)
			return o
		}
		if d := firstDiff(sink.Buf, want); d >= 0 {
			cls := "C10/output-differs"
			if len(sink.Buf) < len(want) && bytes.Equal(sink.Buf, want[:len(sink.Buf)]) {
				cls = "C10/output-truncated"
			}
			o.Fail(cls, "output differs from the valid frames of the input at offset %d (output %d bytes, expected %d): got …%s want …%s", d, len(sink.Buf), len(want),
				hexShort(sink.Buf[max(0, min(d, len(sink.Buf))-4):]), hexShort(want[max(0, min(d, len(want))-4):]))
		}
		if cfg.RecordMessages {
			rec, nf := readOne(cfg.MessageLogDirectory, "rtcmfilter.", ".rtcm")
			o.Probe("record-file-read")
			if nf > 1 {
				o.Probe("run-crossed-simulated-midnight")
			}
			if nf < 1 {
				o.Fail("C10/record-file", "no record file found")
			} else if d := firstDiff(rec, want); d >= 0 {
				o.Fail("C10/record-differs", "record file differs from the valid frames at offset %d (file %d bytes, expected %d)", d, len(rec), len(want))
			}
		}
		if cfg.DisplayMessages {
			txt, nf := readOne(cfg.MessageLogDirectory, "rtcm.", ".txt")
			o.Probe("display-log-read")
			if nf < 1 {
				o.Fail("C10/display-log", "no display log file found")
			} else if h := countHeaders(txt); h != nMsgs {
				o.Fail("C10/display-entries", "display log holds %d entries, %d messages were delivered", h, nMsgs)
			}
		}
		o.Nontrivial = nMsgs > 0
		return o
	}
}

// ---- C07 (pipeline level): no input can crash or hang framing, decoding, display ---------

func hostileStream(c *hx.Ctx, o *hx.Outcome) ([]gnss.Segment, []byte) {
	t := c.T
	n := 1 + t.S(6)
	if c.Thorough() {
		n = 1 + t.S(12)
	}
	var segs []gnss.Segment
	for i := 0; i < n; i++ {
		switch t.SW(6, 2, 1, 1, 1) {
		case 0:
			sg := gnss.GenHostileFrame(t)
			segs = append(segs, sg)
			o.Probe(fmt.Sprintf("hostile-frame-type-%d", sg.Type))
			l := len(sg.Bytes) - 6
			switch {
			case l <= 3:
				o.Probe("hostile-len:1-3")
			case l <= 21:
				o.Probe("hostile-len:4-21")
			case l <= 255:
				o.Probe("hostile-len:22-255")
			default:
				o.Probe("hostile-len:256-1023")
			}
		case 1:
			segs = append(segs, gnss.GenDecodableFrame(t))
			o.Probe("wellformed-decodable-frame")
			// followed by "the next message from the same receiver"
			for k := t.SW(3, 2, 1); k > 0; k-- {
				if sg, kind := gnss.SiblingFrame(t, segs[len(segs)-1].Bytes); kind != "" {
					segs = append(segs, sg)
					o.Probe("sibling-frame")
					o.Probe("sibling:" + kind)
				}
			}
		case 2:
			segs = append(segs, gnss.GenFrame(t, gnss.Opts{LongOneIn: 6}))
		case 3:
			segs = append(segs, gnss.GenJunk(t))
		default:
			segs = append(segs, gnss.GenGarbage(t))
		}
	}
	wire, faults := gnss.ApplyLineFaults(t, segs, 2)
	for _, f := range faults {
		o.Fault("line:" + f.Kind)
	}
	o.Fault("byzantine-device:crc-valid-hostile-payloads")
	return segs, wire
}

func C07App(app string, entry EntryFunc) func(*hx.Ctx) *hx.Outcome {
	return func(c *hx.Ctx) *hx.Outcome {
		o := &hx.Outcome{}
		t := c.T
		segs, wire := hostileStream(c, o)
		o.ScenHash = gnss.Hash(wire)
		sink := &env.Sink{Name: "out"}
		src := &env.Source{T: t, Data: wire, MaxChunk: 4096}
		cfg := jsonconfig.Config{}
		if c.Detail {
			o.Sample = map[string]any{"app": app, "segments": gnss.Describe(segs), "wire_len": len(wire), "wire_hex": hexShort(wire)}
		}
		s := c.NewSim()
		s.ChooseStrategy()
		s.Budget = 200*(len(wire)+32) + 20000
		returned := false
		verdict := s.Run(func() {
			entry(startTime, src, sink, &cfg)
			returned = true
		})
		o.Verdict, o.Strategy = verdict, rt.StratNames[s.Strategy]
		if len(s.Panics) > 0 {
			o.Fail("C07/panic", "%s pipeline: a goroutine panicked: %s | wire %s", app, firstLine(s.Panics[0]), hexShort(wire))
			return o
		}
		if !returned {
			o.Fail("C07/hang", "%s: HandleMessages did not return within the step budget (verdict %s, %d steps)", app, verdict, s.Steps)
			return o
		}
		ref, refPanic := sequentialRef(wire)
		if refPanic != "" {
			o.Fail("C07/panic", "framing panicked: %s", refPanic)
			return o
		}
		if h := countHeaders(sink.Buf); h != len(ref) {
			// not C07's business unless nothing at all came out although messages exist
			o.Probe("display-count-differs(C11)")
		}
		o.Nontrivial = len(ref) > 0
		return o
	}
}

// ---- C16: rtcmlogger passes through unchanged and records an identical copy ---------------

func C16(start func(cfg *lcfg.Config)) func(*hx.Ctx) *hx.Outcome {
	return func(c *hx.Ctx) *hx.Outcome {
		o := &hx.Outcome{}
		t := c.T
		// any bytes at all: RTCM-like streams, binary, long blocks
		var data []byte
		switch t.SW(3, 3, 2, 1) {
		case 0:
			// empty or tiny
			data = t.SBytes(t.S(4))
		case 1:
			_, data, _ = genNoisyStream(c, o)
		case 2:
			n := 1 + t.S(3000)
			data = make([]byte, n)
			seedb := t.SBytes(8)
			for i := range data {
				data[i] = seedb[i%8] + byte(i*7) ^ byte(i>>8)
			}
		default:
			// longer than the 8096-byte block
			n := 8096 + t.S(3)*8096 + t.S(200) - 100
			data = make([]byte, n)
			seedb := t.SBytes(8)
			for i := range data {
				data[i] = seedb[i%8] ^ byte(i*13) ^ byte(i>>7)
			}
			o.Probe("input-longer-than-block")
		}
		if len(data) == 0 {
			o.Probe("empty-input")
		}
		dir := c.TempDir()
		cfg := &lcfg.Config{LogEvents: t.SBool(1, 3), MessageLogDirectory: filepath.Join(dir, "rtcm"), EventLogDirectory: filepath.Join(dir, "events")}
		maxChunk := []int{1, 100, 8096, 20000}[t.S(4)]
		src := &env.Source{T: t, Data: data, MaxChunk: maxChunk, ZeroReads: t.SBool(1, 3), PauseOneIn: []int{0, 0, 0, 3, 40}[t.S(5)]}
		// one run in five: stdin reports transient read errors (a device that times
		// out or is busy for a moment) and then delivers again.  The program retries;
		// no byte may be lost and nothing may end before the real end of input.
		if len(data) > 0 && t.SBool(1, 5) {
			k := []int{1, 2, 3, 7, 8, 9, 17, 40}[t.S(8)]
			last := -1
			for i := 0; i < k; i++ {
				at := last + 1 + t.S(1+len(data)/k)
				if at > len(data) {
					break
				}
				last = at
				in := env.Interruption{At: at, Timeout: true}
				if t.S(4) == 0 {
					in.Silence = []time.Duration{time.Millisecond, 40 * time.Millisecond, 2 * time.Second}[t.S(3)]
				}
				src.Ints = append(src.Ints, in)
			}
			o.Fault("stdin:transient-read-errors")
			o.ProbeN("stdin-transient-read-errors-scripted", len(src.Ints))
		}
		sink := genSink(t, "stdout")
		// the disk under the record file: slow, failing now and then, full, full and freed
		disk := env.GenDisk(t, true, ".rtcm")
		rt.SetFileHook(disk.Hook)
		defer rt.SetFileHook(nil)
		o.ScenHash = gnss.Hash(data) ^ uint64(maxChunk) ^ uint64(disk.ErrMode)<<20 ^ uint64(disk.Latency)<<24
		if c.Detail {
			o.Sample = map[string]any{"input_len": len(data), "input_hex": hexShort(data), "max_chunk": maxChunk, "zero_reads": src.ZeroReads, "log_events": cfg.LogEvents,
				"stdout_latency": sink.Latency.String(), "stdout_extra_yields": sink.ExtraYields, "record_disk": disk.Describe()}
		}
		s := c.NewSim()
		s.ChooseStrategy()
		s.SetStarveKey([]string{"main.go:1", "main.go", "main"}[t.D(3)])
		fineGrained(c, s, o)
		s.StdinR, s.StdoutW = src, sink
		s.Budget = 120*len(data) + 60000 // chunks are mostly a few bytes whatever the maximum; fine-grained runs yield per statement
		returned := false
		var atExit []byte
		nAtExit := 0
		preStart := nearMidnight(t, o, s)
		verdict := s.Run(func() {
			preStart()
			start(cfg)
			returned = true
			// the process exits here: what is in the record file now is what survives
			atExit, nAtExit = readOne(cfg.MessageLogDirectory, "rtcmlogger.", ".rtcm")
			s.Logf("start returned: record file holds %d bytes", len(atExit))
		})
		o.Verdict, o.Strategy = verdict, rt.StratNames[s.Strategy]
		o.ProbeN("zero-length-reads", src.ZeroN)
		diskProbes(o, disk)
		if len(s.Panics) > 0 {
			o.Fail("C16/panic", "%s", firstLine(s.Panics[0]))
			return o
		}
		if !returned {
			o.Fail("C16/no-return", "start did not return after end of input (verdict %s, %d steps; record disk %v, %d write errors)", verdict, s.Steps, disk.Describe(), disk.Errors)
			return o
		}
		if d := firstDiff(sink.Buf, data); d >= 0 {
			o.Fail("C16/stdout-differs", "standard output differs from standard input at offset %d (out %d bytes, in %d; record disk %d write errors)", d, len(sink.Buf), len(data), disk.Errors)
		}
		if disk.Errors > 0 {
			// The disk refused part of the record: it cannot be complete, and the
			// statement does not say what a damaged record must look like.  What it
			// does say was checked above: recording never alters, delays indefinitely
			// or truncates the pass-through.
			o.Nontrivial = len(data) > 0
			return o
		}
		final, nf := readOne(cfg.MessageLogDirectory, "rtcmlogger.", ".rtcm")
		if nf > 1 || nAtExit > 1 {
			// slow standard output: the simulated run crossed midnight and the daily
			// writer started the next day's file; the record is the files in date order
			o.Probe("run-crossed-simulated-midnight")
		}
		if d := firstDiff(final, data); d >= 0 {
			o.Fail("C16/record-differs", "record file at quiescence differs from the input at offset %d (file %d bytes, input %d)", d, len(final), len(data))
		}
		if d := firstDiff(atExit, data); d >= 0 {
			o.Probe("recorder-behind-at-exit")
			cls := "C16/record-incomplete-at-exit"
			if !(len(atExit) < len(data) && bytes.Equal(atExit, data[:len(atExit)])) {
				cls = "C16/record-differs-at-exit"
			}
			o.Fail(cls, "when start returned (the program exits there) the record file held %d of %d input bytes (first difference at %d)", len(atExit), len(data), d)
		}
		o.Nontrivial = len(data) > 0
		return o
	}
}
