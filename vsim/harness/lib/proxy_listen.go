package lib

import (
	"bytes"
	"fmt"
	"net"
	"net/http"
	"net/http/httptest"
	"time"

	"verif/vsim/env"
	"verif/vsim/gnss"
	"verif/vsim/hx"
	"verif/vsim/rt"
)

// C19, listener mode: the proxy's real start() over a simulated network.
//
// One running proxy serves one to three client connections, one after another
// or at the same time.  Every accepted call makes the proxy dial the caster; the
// simulated caster answers each dial with a connection of its own and a stream
// of its own.  Which upstream connection belongs to which client is the proxy's
// business (the unchanged code dials inside the accept loop, a correct change may
// dial from the session's goroutine), so the oracle does not fix the pairing: it
// asks for SOME one-to-one pairing under which every caster connection received
// exactly its client's bytes and every client exactly its caster connection's.

type ProxyStartHooks struct {
	NetSeam   bool
	Configure func(proxyHost string, proxyPort int, remote, controlHost string, controlPort int, logDir string)
	Start     func()
}

type proxySession struct {
	up, down                []byte
	clientPeer, proxyClient *env.Conn
	casterPeer, proxyServer *env.Conn // of the i-th DIAL (not necessarily the i-th client)
	clientDone, casterDone  chan struct{}
	dialled                 bool
}

const (
	proxyAddrHost = "proxy.sim"
	proxyAddrPort = 2101
	casterAddr    = "caster.sim:2101"
	controlHost   = "control.sim"
	controlPort   = 8080
)

func c19Listener(c *hx.Ctx, o *hx.Outcome, h ProxyHooks) *hx.Outcome {
	t := c.T
	L := h.Listener
	nConn := 1 + t.SW(3, 4, 2)
	concurrent := nConn > 1 && t.SBool(1, 2)
	o.Probe("listener-mode")
	o.Probe(fmt.Sprintf("listener-mode:%d-connections", nConn))
	if nConn > 1 {
		if concurrent {
			o.Probe("listener-mode:connections-overlap")
		} else {
			o.Probe("listener-mode:connections-one-after-another")
		}
	}
	ss := make([]*proxySession, nConn)
	var scen uint64
	totalUp, totalDown := 0, 0
	for i := range ss {
		s := &proxySession{}
		s.up = proxyTraffic(c, o, "client")
		s.down = proxyTraffic(c, o, "caster")
		if t.SBool(1, 4) {
			s.down = nil
		}
		scen = scen*1000003 ^ gnss.Hash(s.up)*31 ^ gnss.Hash(s.down)
		totalUp += len(s.up)
		totalDown += len(s.down)
		ss[i] = s
	}
	o.ScenHash = scen ^ uint64(nConn)<<56
	maxChunk := []int{1, 7, 64, 2048, 5000}[t.S(5)]
	nStatus := t.S(4)
	bufCap := []int{0, 0, 16, 256, 4096}[t.S(5)]
	casterStall := []time.Duration{0, 0, 0, 200 * time.Millisecond, 7 * time.Second, 3 * time.Minute}[t.S(6)]
	clientStall := []time.Duration{0, 0, 0, 200 * time.Millisecond, 7 * time.Second, 3 * time.Minute}[t.S(6)]
	if bufCap > 0 {
		o.Fault("tcp:bounded-buffers")
	}
	if casterStall > 0 {
		o.Fault("caster:stalls")
	}
	if clientStall > 0 {
		o.Fault("client:stalls")
	}
	if c.Detail {
		var ups, downs []string
		for _, s := range ss {
			ups = append(ups, hexShort(s.up))
			downs = append(downs, hexShort(s.down))
		}
		o.Sample = map[string]any{"mode": "listener (real start() over the simulated network)", "connections": nConn, "overlapping": concurrent,
			"client_to_caster_hex": ups, "caster_to_client_hex": downs, "max_chunk": maxChunk, "status_requests": nStatus,
			"tcp_buffer": bufCap, "caster_stall": casterStall.String(), "client_stall": clientStall.String()}
	}
	sim := c.NewSim()
	sim.ChooseStrategy()
	sim.EnableStmt(rt.PkgReportFeed)
	// (goroutines started by the program are named after the file and line of their go statement)
	sim.SetStarveKey([]string{"tcpprox.go:13", "tcpprox.go:14", "tcpprox.go:19", "tcpprox.go:23", "tcpprox.go", "ntrip-client", "caster"}[t.D(7)])
	fineGrained(c, sim, o)
	sim.Budget = 60*(totalUp+totalDown+64*nConn) + 60000

	nw := env.NewNet(t)
	dials := 0
	nw.OnDial = func(network, addr string) (net.Conn, error) {
		if dials >= nConn {
			// more upstream calls than clients: give it a connection nobody talks on
			dials++
			_, pe := env.PipeCap(t, fmt.Sprintf("caster-extra%d", dials), fmt.Sprintf("proxy-server-side-extra%d", dials), bufCap)
			return pe, nil
		}
		s := ss[dials]
		dials++
		s.dialled = true
		if addr != casterAddr {
			o.Probe("listener-mode:dialled-another-address")
		}
		startCaster(t, s, dials, maxChunk, casterStall)
		return s.proxyServer, nil
	}
	for i, s := range ss {
		s.clientPeer, s.proxyClient = env.PipeCap(t, fmt.Sprintf("ntrip-client%d", i+1), fmt.Sprintf("proxy-client-side%d", i+1), bufCap)
		s.casterPeer, s.proxyServer = env.PipeCap(t, fmt.Sprintf("caster%d", i+1), fmt.Sprintf("proxy-server-side%d", i+1), bufCap)
		for _, cn := range []*env.Conn{s.clientPeer, s.proxyClient, s.casterPeer, s.proxyServer} {
			cn.MaxChunk = maxChunk
		}
		s.clientDone, s.casterDone = make(chan struct{}), make(chan struct{})
	}
	rt.SetNetHook(nw)
	defer rt.SetNetHook(nil)

	disk := env.GenDisk(t, true, ".rtcm")
	rt.SetFileHook(disk.Hook)
	defer rt.SetFileHook(nil)
	defer func() { diskProbes(o, disk) }()
	if c.Detail {
		o.Sample.(map[string]any)["message_log_disk"] = disk.Describe()
	}

	// the operator's browser: GET /status/report through the handler the program registered
	empty, tmplAngles := -1, -1
	var pageViolation string
	statusCalls, httpCalls := 0, 0
	fetch := func() []byte {
		f := nw.Handlers["/status/report"]
		if f == nil {
			return nil
		}
		rec := httptest.NewRecorder()
		req := httptest.NewRequest(http.MethodGet, "http://"+fmt.Sprint(controlHost, ":", controlPort)+"/status/report", nil)
		f(rec, req)
		httpCalls++
		return rec.Body.Bytes()
	}
	checkPage := func(when string) {
		page := h.Status()
		statusCalls++
		if a := angle(page); a != empty && pageViolation == "" {
			pageViolation = fmt.Sprintf("%s: the status report holds %d raw angle brackets, an empty report rendered by the same code holds %d", when, a, empty)
		}
		if tmplAngles >= 0 {
			if body := fetch(); body != nil {
				if a := angle(body); a != tmplAngles && pageViolation == "" {
					pageViolation = fmt.Sprintf("%s: the page served for /status/report holds %d raw angle brackets, the page served before any traffic held %d", when, a, tmplAngles)
				}
			}
		}
	}

	// A client hangs up when every client that has called so far has been given an
	// upstream connection and everything those connections sent has arrived at
	// some client (which upstream connection is whose is the proxy's business).
	connected := 0
	allDelivered := func() bool {
		got, want := 0, 0
		for _, s := range ss {
			got += len(s.clientPeer.ReadBuf)
			if s.dialled {
				want += len(s.down)
			}
		}
		return dials >= connected && got >= want
	}
	listening := false
	finished := false
	ordered := !concurrent // sessions strictly one after another, as seen by the parser
	preStart := nearMidnight(t, o, sim)
	verdict := sim.Run(func() {
		preStart()
		if h.Reset != nil {
			h.Reset()
		}
		L.Configure(proxyAddrHost, proxyAddrPort, casterAddr, controlHost, controlPort, c.TempDir())
		empty = angle(h.EmptyStatus())
		rt.Go("proxy-start", L.Start)
		// wait (in simulated time) for the proxy to listen
		// (a slow disk under the message log or a stalled goroutine can make that
		// take minutes of simulated time: wait up to an hour, in growing steps)
		var lis *env.Listener
		wait := time.Millisecond
		for waited := time.Duration(0); waited < time.Hour && lis == nil; waited += wait {
			lis = nw.Listening(fmt.Sprint(proxyAddrHost, ":", proxyAddrPort))
			if lis == nil {
				time.Sleep(wait)
				rt.Yield("waiting for the proxy to listen")
				if wait < 10*time.Second {
					wait *= 2
				}
			}
		}
		if lis == nil {
			return
		}
		listening = true
		// the page before any traffic (the status service registers itself in a
		// goroutine of its own: give it a moment)
		wait = time.Millisecond
		for waited := time.Duration(0); waited < 10*time.Minute && nw.Handlers["/status/report"] == nil; waited += wait {
			time.Sleep(wait)
			rt.Yield("waiting for the status service")
			if wait < 10*time.Second {
				wait *= 2
			}
		}
		if body := fetch(); body != nil {
			tmplAngles = angle(body)
			o.Probe("listener-mode:status-page-served-over-http-handler")
		}
		if nStatus > 0 {
			rt.Go("status-requests", func() {
				for i := 0; i < nStatus; i++ {
					k := t.D(40)
					for j := 0; j < k; j++ {
						rt.Yield("operator idle")
					}
					checkPage(fmt.Sprintf("status request %d during the session", i+1))
				}
			})
		}
		for i, s := range ss {
			if concurrent && i > 0 {
				// the next client calls while the earlier sessions are in progress
				for k := t.D(60); k > 0; k-- {
					rt.Yield("next client about to call")
				}
			}
			connected++
			lis.Connect(s.proxyClient)
			startClient(t, s, i+1, maxChunk, clientStall, allDelivered)
			if !concurrent {
				rt.Yield("waiting for the client to finish")
				<-s.clientDone
				rt.Yield("client finished")
				// the session is over for the parser once the proxy has hung up on the
				// caster; if it does not (within a generous simulated time) the next
				// client calls anyway and the order of the parser's input is no longer
				// known to the oracle
				if !waitClosed(s.casterDone, 10*time.Minute) {
					ordered = false
					o.Probe("listener-mode:upstream-not-closed-after-client-hung-up")
				}
			}
		}
		if concurrent {
			for _, s := range ss {
				rt.Yield("waiting for a client to finish")
				<-s.clientDone
				rt.Yield("a client finished")
			}
		}
		for _, s := range ss {
			if s.dialled {
				waitClosed(s.casterDone, 10*time.Minute)
			}
		}
		finished = true
	})
	o.Verdict, o.Strategy = verdict, rt.StratNames[sim.Strategy]
	o.ProbeN("status-requests", statusCalls)
	o.ProbeN("status-requests-over-http-handler", httpCalls)
	o.ProbeN("lock-contention-observed", sim.LockContention)
	wb := 0
	for _, s := range ss {
		wb += s.proxyServer.WriteBlocked + s.proxyClient.WriteBlocked
	}
	o.ProbeN("proxy-write-blocked-on-full-buffer", wb)
	o.SimTime = sim.Elapsed()
	o.Nontrivial = totalUp+totalDown > 0
	if len(sim.Panics) > 0 {
		o.Fail("C19/panic", "%s", firstLine(sim.Panics[0]))
		return o
	}
	if !listening {
		o.Fail("C19/not-listening", "start() did not listen on %s:%d (verdict %s, %d steps, %d listen calls)", proxyAddrHost, proxyAddrPort, verdict, sim.Steps, nw.Listens)
		return o
	}
	if !finished {
		got, want := 0, 0
		for _, s := range ss {
			got += len(s.casterPeer.ReadBuf)
			want += len(s.up)
		}
		o.Fail("C19/session-stuck", "%d connection(s) through the running proxy did not all finish (verdict %s, %d steps; %d upstream calls; casters got %d of %d bytes; clients got all: %v)",
			nConn, verdict, sim.Steps, dials, got, want, allDelivered())
		return o
	}
	if dials != nConn {
		o.Probe("listener-mode:upstream-calls-differ-from-client-calls")
	}
	// some one-to-one pairing of clients and upstream connections must explain everything
	perm, why := pairSessions(ss)
	if perm == nil {
		o.Fail("C19/relay-differs", "%d connections through one proxy: no pairing of clients with upstream connections under which every byte arrived where it belongs: %s", nConn, why)
	} else {
		for i, j := range perm {
			if i != j {
				o.Probe("listener-mode:pairing-differs-from-call-order")
				break
			}
		}
	}
	// the report at quiescence, through a second scheduler run (see direct mode)
	var q [][]byte
	var page, body []byte
	pageDone := false
	s2 := c.NewSim()
	s2.Run(func() {
		q = h.QueueRaw()
		page = h.Status()
		body = fetch()
		pageDone = true
	})
	if !pageDone {
		o.Probe("status-request-after-the-session-did-not-return")
		return o
	}
	var qcat []byte
	for _, r := range q {
		qcat = append(qcat, r...)
	}
	if len(q) > h.QueueCap {
		o.Fail("C19/queue-over-capacity", "%d messages in the report queue, capacity %d", len(q), h.QueueCap)
	}
	if len(qcat) > 0 {
		o.Probe("report-lists-messages")
		if ordered {
			var all []byte
			for _, s := range ss {
				all = append(all, s.up...)
			}
			if !bytes.Contains(all, qcat) {
				o.Fail("C19/report-not-relayed-traffic", "the messages listed in the report (%d messages, %d bytes) are not a contiguous run of what the %d client(s) sent one after another: %s", len(q), len(qcat), nConn, hexShort(qcat))
			}
		}
	}
	if n := countHeaders(page); n != len(q) {
		o.Fail("C19/report-entries", "the status page shows %d message entries, the queue holds %d", n, len(q))
	}
	if a := angle(page); a != empty && pageViolation == "" {
		pageViolation = fmt.Sprintf("after the sessions: the status report holds %d raw angle brackets, an empty report rendered by the same code holds %d", a, empty)
	}
	if body != nil && tmplAngles >= 0 {
		if a := angle(body); a != tmplAngles && pageViolation == "" {
			pageViolation = fmt.Sprintf("after the sessions: the page served for /status/report holds %d raw angle brackets, the page served before any traffic held %d", a, tmplAngles)
		}
	}
	if pageViolation != "" {
		o.Fail("C19/unescaped-markup", "%s", pageViolation)
	}
	return o
}

// waitClosed waits for ch to be closed, at most d of simulated time.
func waitClosed(ch chan struct{}, d time.Duration) bool {
	rt.Yield("waiting for a hang-up")
	tm := time.NewTimer(d)
	defer tm.Stop()
	ok := false
	select {
	case <-ch:
		ok = true
	case <-tm.C:
	}
	rt.Yield("waited for a hang-up")
	return ok
}

func startClient(t *rt.Tape, s *proxySession, n, maxChunk int, stall time.Duration, allDelivered func() bool) {
	upDone := make(chan struct{})
	rt.Go(fmt.Sprintf("ntrip-client%d-writer", n), func() {
		rest := s.up
		for len(rest) > 0 {
			k := 1 + t.D(len(rest))
			if k > maxChunk {
				k = 1 + t.D(maxChunk)
			}
			if _, err := s.clientPeer.Write(rest[:k]); err != nil {
				break
			}
			rest = rest[k:]
		}
		rt.Yield("client writer done")
		close(upDone)
		rt.Yield("client writer closed upDone")
	})
	rt.Go(fmt.Sprintf("ntrip-client%d-reader", n), func() {
		// receive until everything any caster connection sent has arrived at some
		// client (which upstream connection is this client's is not the harness's
		// to say), then, once everything was sent, hang up
		buf := make([]byte, 4096)
		if stall > 0 {
			time.Sleep(stall)
			rt.Yield("client stalled")
		}
		for !allDelivered() {
			s.clientPeer.SetReadDeadline(time.Now().Add(2 * time.Second))
			if _, err := s.clientPeer.Read(buf); err != nil {
				if te, ok := err.(interface{ Timeout() bool }); ok && te.Timeout() {
					continue
				}
				break
			}
		}
		rt.Yield("client reader waits for writer")
		<-upDone
		rt.Yield("client reader: writer done")
		s.clientPeer.Close()
		close(s.clientDone)
		rt.Yield("client hung up")
	})
}

func startCaster(t *rt.Tape, s *proxySession, n, maxChunk int, stall time.Duration) {
	rt.Go(fmt.Sprintf("caster%d-writer", n), func() {
		rest := s.down
		for len(rest) > 0 {
			k := 1 + t.D(len(rest))
			if k > maxChunk {
				k = 1 + t.D(maxChunk)
			}
			if _, err := s.casterPeer.Write(rest[:k]); err != nil {
				return
			}
			rest = rest[k:]
		}
	})
	rt.Go(fmt.Sprintf("caster%d-reader", n), func() {
		buf := make([]byte, 4096)
		stalled := false
		for {
			if stall > 0 && !stalled && len(s.casterPeer.ReadBuf) >= 1 {
				stalled = true
				time.Sleep(stall)
				rt.Yield("caster stalled")
			}
			if _, err := s.casterPeer.Read(buf); err != nil {
				break
			}
		}
		close(s.casterDone)
		rt.Yield("caster saw the hang-up")
	})
}

// pairSessions looks for a permutation p (client i talks through upstream
// connection p[i]) that explains all received bytes.
func pairSessions(ss []*proxySession) ([]int, string) {
	n := len(ss)
	idx := make([]int, n)
	for i := range idx {
		idx[i] = i
	}
	var found []int
	why := ""
	var rec func(k int)
	rec = func(k int) {
		if found != nil {
			return
		}
		if k == n {
			for i, j := range idx {
				if !bytes.Equal(ss[j].casterPeer.ReadBuf, ss[i].up) || !bytes.Equal(ss[i].clientPeer.ReadBuf, ss[j].down) {
					return
				}
			}
			found = append([]int(nil), idx...)
			return
		}
		for i := k; i < n; i++ {
			idx[k], idx[i] = idx[i], idx[k]
			rec(k + 1)
			idx[k], idx[i] = idx[i], idx[k]
		}
	}
	rec(0)
	if found == nil {
		// describe the mismatch under the call-order pairing
		for i, s := range ss {
			if d := firstDiff(s.casterPeer.ReadBuf, s.up); d >= 0 {
				why += fmt.Sprintf("[upstream connection %d received %d bytes, client %d sent %d, first difference at %d] ", i+1, len(s.casterPeer.ReadBuf), i+1, len(s.up), d)
			}
			if d := firstDiff(s.clientPeer.ReadBuf, s.down); d >= 0 {
				why += fmt.Sprintf("[client %d received %d bytes, upstream connection %d sent %d, first difference at %d] ", i+1, len(s.clientPeer.ReadBuf), i+1, len(s.down), d)
			}
		}
	}
	return found, why
}
