package lib

import (
	"bufio"
	"bytes"
	"encoding/json"
	"fmt"
	"log/slog"
	"os"
	"runtime"
	"strconv"
	"sync"
	"sync/atomic"
	"testing"
	"time"

	"github.com/goblimey/go-ntrip/apps/appcore"
	cq "github.com/goblimey/go-ntrip/apps/proxy/circular_queue"
	"github.com/goblimey/go-ntrip/jsonconfig"
	rtcm "github.com/goblimey/go-ntrip/rtcm/handler"
	"verif/vsim/gnss"
	"verif/vsim/hx"
	"verif/vsim/rt"
)

// The auxiliary race lane (DESIGN.md 3.10): the same kinds of workload, run
// UN-GATED (real goroutines, real locks, rt.Yield perturbs with
// runtime.Gosched) in a binary built with -race.  This is runtime
// monitoring, not simulation: the schedule is neither controlled nor
// replayable, only the input is.  A race report is sound, so it is kept for
// the literal "no data race occurs" clause of C09, C15 and C18.

type raceSummary struct {
	Prop       string `json:"prop"`
	Iterations int    `json:"iterations"`
	Mismatches int    `json:"mismatches"`
	FirstMsg   string `json:"first_mismatch,omitempty"`
	Goroutines int    `json:"goroutines_started"`
	Hang       string `json:"hang,omitempty"`
	HangStacks string `json:"hang_stacks,omitempty"`
}

// raceProgress is bumped by the workloads whenever something completes (a
// message consumed, a decode displayed, a queue operation returned): a hang is
// "no progress for a minute of real time", never "took longer than expected".
var raceProgress atomic.Int64

type sliceReader struct {
	data []byte
	pos  int
	step int
}

func (r *sliceReader) Read(p []byte) (int, error) {
	if r.pos >= len(r.data) {
		return 0, errEOF
	}
	n := r.step
	if n > len(p) {
		n = len(p)
	}
	if r.pos+n > len(r.data) {
		n = len(r.data) - r.pos
	}
	copy(p, r.data[r.pos:r.pos+n])
	r.pos += n
	return n, nil
}

var errEOF = func() error { _, err := bytes.NewReader(nil).Read(make([]byte, 1)); return err }()

func raceC09(t *rt.Tape, sum *raceSummary) {
	o := &hx.Outcome{}
	c := &hx.Ctx{T: t, Tier: "quick"}
	_, wire, _ := genNoisyStream(c, o)
	if len(wire) > 16384 {
		return // the long-history streams belong to the gated lane
	}
	want, pan := sequentialRef(wire)
	if pan != "" {
		return
	}
	k := 1 + t.S(4)
	chans := make([]chan rtcm.Message, k)
	got := make([][]rtcm.Message, k)
	var wg sync.WaitGroup
	for i := range chans {
		if t.S(5) == 0 {
			continue
		}
		chans[i] = make(chan rtcm.Message, []int{0, 1, 16}[t.S(3)])
		wg.Add(1)
		sum.Goroutines++
		go func(i int) {
			defer wg.Done()
			for m := range chans[i] {
				_ = m.String()
				got[i] = append(got[i], m)
				raceProgress.Add(1)
			}
		}(i)
	}
	var cfg jsonconfig.Config
	appcore.New(&cfg, chans).HandleMessagesUntilEOF(startTime, bufio.NewReader(&sliceReader{data: wire, step: 1 + t.S(64)}))
	for _, ch := range chans {
		if ch != nil {
			close(ch)
		}
	}
	wg.Wait()
	for i := range chans {
		if chans[i] == nil {
			continue
		}
		ok := len(got[i]) == len(want)
		for j := 0; ok && j < len(want); j++ {
			ok = got[i][j].MessageType == want[j].MessageType && bytes.Equal(got[i][j].RawData, want[j].RawData)
		}
		if !ok {
			sum.Mismatches++
			if sum.FirstMsg == "" {
				sum.FirstMsg = fmt.Sprintf("consumer %d: %d messages, sequential framing gives %d (wire %s)", i, len(got[i]), len(want), hexShort(wire))
			}
		}
	}
}

func raceC15(t *rt.Tape, sum *raceSummary) {
	level := slog.LevelDebug
	if t.S(3) == 0 {
		level = slog.LevelInfo
	}
	var pool [][]byte
	for i := 0; i < 1+t.S(4); i++ {
		if rf := repoFrames(); len(rf) > 0 && t.S(2) == 0 {
			pool = append(pool, rf[t.S(len(rf))])
		} else {
			pool = append(pool, gnss.GenDecodableFrame(t).Bytes)
		}
	}
	bases := make([]baseline, len(pool))
	for i, f := range pool {
		b, pan := decodeAlone(f, level)
		if pan != "" {
			return
		}
		bases[i] = b
	}
	var mu sync.Mutex
	var wg sync.WaitGroup
	nh := 2 + t.S(3)
	seqs := make([][]int, nh)
	for hi := range seqs {
		for i := 0; i < 2+t.S(5); i++ {
			seqs[hi] = append(seqs[hi], t.S(len(pool)))
		}
	}
	for hi := 0; hi < nh; hi++ {
		wg.Add(1)
		sum.Goroutines++
		go func(hi int) {
			defer wg.Done()
			h := rtcm.New(startTime, level)
			for _, fi := range seqs[hi] {
				m, _ := h.GetMessage(pool[fi]) // shared bytes
				if m == nil {
					continue
				}
				for d := 0; d < 2; d++ {
					cp := *m
					wg.Add(1)
					go func(cp rtcm.Message, fi int) {
						defer wg.Done()
						txt := displayOf(&cp)
						raceProgress.Add(1)
						if txt != bases[fi].text {
							mu.Lock()
							sum.Mismatches++
							if sum.FirstMsg == "" {
								sum.FirstMsg = fmt.Sprintf("text of frame %s differs under concurrency", hexShort(pool[fi]))
							}
							mu.Unlock()
						}
						cp.ErrorMessage = "x"
						cp.Readable = nil
					}(cp, fi)
				}
			}
		}(hi)
	}
	wg.Wait()
}

func raceC18(t *rt.Tape, sum *raceSummary) {
	n := 1 + t.S(8)
	q := cq.NewCircularQueue(n)
	var wg sync.WaitGroup
	var mu sync.Mutex
	for a := 0; a < 3; a++ {
		wg.Add(1)
		sum.Goroutines++
		go func(a int) {
			defer wg.Done()
			for i := 0; i < 40; i++ {
				q.Add(msgWithID(uint64(a*1000 + i + 1)))
				raceProgress.Add(1)
			}
		}(a)
	}
	for r := 0; r < 3; r++ {
		wg.Add(1)
		sum.Goroutines++
		go func() {
			defer wg.Done()
			for i := 0; i < 40; i++ {
				got := idsOf(q.GetMessages())
				raceProgress.Add(1)
				bad := len(got) > n
				// per adder the ids must be increasing (a contiguous run of the addition order)
				last := map[uint64]uint64{}
				for _, id := range got {
					if id <= last[id/1000] {
						bad = true
					}
					last[id/1000] = id
				}
				if bad {
					mu.Lock()
					sum.Mismatches++
					if sum.FirstMsg == "" {
						sum.FirstMsg = fmt.Sprintf("capacity %d snapshot %v", n, got)
					}
					mu.Unlock()
				}
			}
		}()
	}
	wg.Wait()
}

// RaceLane is the body of TestVsimRace.
func RaceLane(t *testing.T) {
	id := os.Getenv("VSIM_PROP")
	if id == "" || os.Getenv("VSIM_MODE") != "race" {
		t.Skip("race lane not requested")
	}
	seed, _ := strconv.ParseUint(os.Getenv("VERIF_SEED"), 10, 64)
	wall, _ := strconv.Atoi(os.Getenv("VSIM_WALL_S"))
	if wall <= 0 {
		wall = 5
	}
	from, _ := strconv.ParseUint(os.Getenv("VSIM_FROM"), 10, 64)
	rt.FreePerturb.Store(true)
	sum := &raceSummary{Prop: id}
	t0 := time.Now()
	iters := 0
	for i := uint64(0); time.Since(t0) < time.Duration(wall)*time.Second; i++ {
		tape := rt.NewGenTape(rt.Mix(seed, "race-"+id, from+i))
		done := make(chan struct{})
		go func() {
			defer close(done)
			switch id {
			case "C09":
				raceC09(tape, sum)
			case "C15":
				raceC15(tape, sum)
			case "C18":
				raceC18(tape, sum)
			}
		}()
		stuck := false
		last, lastChange := raceProgress.Load(), time.Now()
	waiting:
		for {
			select {
			case <-done:
				break waiting
			case <-time.After(2 * time.Second):
				if p := raceProgress.Load(); p != last {
					last, lastChange = p, time.Now()
				} else if time.Since(lastChange) > 60*time.Second {
					stuck = true
					break waiting
				}
			}
		}
		if stuck {
			// a real deadlock (or livelock) in the un-gated run: nothing completed for a minute
			// (a fresh summary: the stuck iteration's goroutines still own parts of sum)
			hs := &raceSummary{Prop: id, Iterations: iters}
			hs.Hang = fmt.Sprintf("iteration %d (seed %d, index %d): no operation completed for 60 s of real time", iters, seed, from+i)
			buf := make([]byte, 1<<16)
			n := runtime.Stack(buf, true)
			hs.HangStacks = string(buf[:n])
			b, _ := json.Marshal(hs)
			if out := os.Getenv("VSIM_OUT"); out != "" {
				os.WriteFile(out, b, 0o644)
			}
			os.Exit(4)
		}
		iters++
		sum.Iterations = iters
	}
	b, _ := json.Marshal(sum)
	if out := os.Getenv("VSIM_OUT"); out != "" {
		os.WriteFile(out, b, 0o644)
	} else {
		fmt.Println(string(b))
	}
}
