package lib

import (
	"bufio"
	"io"
	"reflect"
	"time"
)

// callWithSource calls an entry point of the form f(startTime, reader) with the
// byte source in the form the entry point asks for: a *bufio.Reader when that is
// its parameter type (the unchanged tree), the source itself when the parameter
// is an interface the source satisfies (io.Reader) and raw is set.  A change of
// the entry point from *bufio.Reader to io.Reader lets callers hand over
// unbuffered readers, and what the code then does with a Read that returns data
// together with an error is its own responsibility; a harness that went on
// wrapping the source would hide exactly that.  The results are returned as they are.
func callWithSource(f any, start time.Time, src io.Reader, raw bool) []reflect.Value {
	fv := reflect.ValueOf(f)
	ft := fv.Type()
	var arg reflect.Value
	pt := ft.In(1)
	switch {
	case raw && pt.Kind() == reflect.Interface && reflect.TypeOf(src).Implements(pt):
		arg = reflect.ValueOf(src)
	case reflect.TypeOf((*bufio.Reader)(nil)).AssignableTo(pt):
		arg = reflect.ValueOf(bufio.NewReader(src))
	default:
		arg = reflect.ValueOf(src)
	}
	return fv.Call([]reflect.Value{reflect.ValueOf(start), arg})
}

// takesPlainReader reports whether the entry point accepts the source unwrapped.
func takesPlainReader(f any, src io.Reader) bool {
	pt := reflect.TypeOf(f).In(1)
	return pt.Kind() == reflect.Interface && reflect.TypeOf(src).Implements(pt)
}

func firstInt(vs []reflect.Value) int {
	if len(vs) > 0 && vs[0].CanInt() {
		return int(vs[0].Int())
	}
	return 0
}

func firstErr(vs []reflect.Value) error {
	if len(vs) > 0 && !vs[0].IsNil() {
		if e, ok := vs[0].Interface().(error); ok {
			return e
		}
	}
	return nil
}
