package lib

import (
	"fmt"
	"log/slog"
	"regexp"
	"time"

	rtcm "github.com/goblimey/go-ntrip/rtcm/handler"
	"verif/vsim/gnss"
	"verif/vsim/hx"
	"verif/vsim/rt"
)

// The GNSS calendar: ground truth for C06 and C17.  All arithmetic is on Unix
// milliseconds with the constants of the property text; nothing here calls
// into the repository.

const (
	msWeek = int64(7 * 24 * 3600 * 1000)
	msDay  = int64(24 * 3600 * 1000)
	// Sunday 1970-01-04 00:00:00 UTC
	firstSundayMs = int64(3 * 24 * 3600 * 1000)
)

type constellation struct {
	name   string
	msm4   int
	msm7   int
	offset int64 // week start relative to Sunday 00:00 UTC, in ms
	glo    bool
}

var constellations = []constellation{
	{"GPS", 1074, 1077, -18000, false},
	{"Glonass", 1084, 1087, -3 * 3600 * 1000, true},
	{"Galileo", 1094, 1097, -18000, false},
	{"Beidou", 1124, 1127, -4000, false},
}

// weekStart returns the start (Unix ms) of the constellation week containing t.
func (c constellation) weekStart(t int64) int64 {
	base := firstSundayMs + c.offset
	k := (t - base) / msWeek
	if t < base {
		k = -((base - t + msWeek - 1) / msWeek)
	}
	return base + k*msWeek
}

// encode returns the 30-bit MSM epoch-time field for the true instant t.
func (c constellation) encode(t int64) uint32 {
	ms := t - c.weekStart(t)
	if c.glo {
		return uint32(ms/msDay)<<27 | uint32(ms%msDay)
	}
	return uint32(ms)
}

type epoch struct {
	c       int   // constellation index
	t       int64 // true time, Unix ms (valid epochs)
	illegal bool
	field   uint32
	typ     int
}

var zones = []string{"UTC", "Europe/London", "Europe/Moscow", "Europe/Paris", "America/Los_Angeles", "Pacific/Kiritimati"}

func genLocation(t *rt.Tape) (*time.Location, string) {
	switch k := t.SW(3, 3, 2); k {
	case 0:
		return time.UTC, "UTC"
	case 1:
		name := zones[t.S(len(zones))]
		if loc, err := time.LoadLocation(name); err == nil {
			return loc, name
		}
		return time.UTC, "UTC"
	default:
		off := (t.S(57) - 28) * 1800 // -14h .. +14h in half hours
		return time.FixedZone(fmt.Sprintf("fixed%+d", off), off), fmt.Sprintf("fixed%+ds", off)
	}
}

// genInstant draws an instant between 2017 and 2035, half of the mass within
// seconds of a week or day boundary of some constellation.
func genInstant(t *rt.Tape) int64 {
	// 2017 .. 2035 mostly; one run in four anywhere from 1981 (zone rules, and
	// Moscow's own offset, were different then; the week arithmetic of the
	// property text does not depend on the date)
	lo := time.Date(2017, 1, 1, 0, 0, 0, 0, time.UTC).UnixMilli()
	weeks := int64(t.S(52 * 19))
	if t.S(4) == 0 {
		lo = time.Date(1981, 1, 4, 0, 0, 0, 0, time.UTC).UnixMilli()
		weeks = int64(t.S(52 * 58))
	}
	base := lo + weeks*msWeek
	switch t.SW(8, 8, 2, 2, 3) {
	case 4:
		// exactly on a week boundary of a constellation, or one millisecond either side
		c := constellations[t.S(len(constellations))]
		return c.weekStart(base+msWeek/2) + int64(t.S(3)) - 1
	case 0:
		// anywhere in the week, to the millisecond
		return base + int64(t.S(7*24*3600))*1000 + int64(t.S(1000))
	case 1:
		// within +-30 s of a week boundary of a constellation
		c := constellations[t.S(len(constellations))]
		ws := c.weekStart(base + msWeek/2)
		return ws + int64(t.S(60001)) - 30000
	case 2:
		// within +-30 s of a GLONASS (Moscow) day boundary
		c := constellations[1]
		ws := c.weekStart(base + msWeek/2)
		return ws + int64(t.S(7))*msDay + int64(t.S(60001)) - 30000
	default:
		// within +-30 s of UTC midnight
		return base + int64(t.S(7))*msDay + int64(t.S(60001)) - 30000
	}
}

// dstTransitions returns the instants (Unix ms) in the year around T at which
// the zone's UTC offset changes.
func dstTransitions(loc *time.Location, T int64) []int64 {
	var out []int64
	start := time.UnixMilli(T).AddDate(0, -6, 0)
	_, prev := start.In(loc).Zone()
	for d := 0; d < 366; d++ {
		x := start.AddDate(0, 0, d)
		if _, off := x.In(loc).Zone(); off != prev {
			out = append(out, x.UnixMilli())
			prev = off
		}
	}
	return out
}

func genGap(t *rt.Tape) int64 {
	switch t.SW(3, 3, 3, 2, 2, 2) {
	case 0:
		return 0
	case 1:
		return int64(1 + t.S(1000)) // milliseconds
	case 2:
		return int64(1+t.S(60)) * 1000 // seconds
	case 3:
		return int64(1+t.S(24*60)) * 60000 // minutes to a day
	case 4:
		return int64(1+t.S(5)) * msDay // whole days
	default:
		return 6*msDay - int64(1+t.S(3600000)) // just under six days
	}
}

func formatMs(t int64) string {
	return time.UnixMilli(t).UTC().Format("2006-01-02 15:04:05.000 Mon")
}

// parseReported extracts the instant from a reported time line ("Time <date>",
// "Start of X week <date>[ plus ...]").  The wording around the date is not
// part of the property: the first date-time in the string is taken, in the
// library's display layout or RFC 3339.
var reDisplay = regexp.MustCompile(`\d{4}-\d{2}-\d{2} \d{2}:\d{2}:\d{2}(\.\d+)? [+-]\d{4} [A-Za-z0-9+-]+`)
var reRFC3339 = regexp.MustCompile(`\d{4}-\d{2}-\d{2}T\d{2}:\d{2}:\d{2}(\.\d+)?(Z|[+-]\d{2}:\d{2})`)

func parseReported(s, prefix string) (time.Time, error) {
	_ = prefix
	if m := reDisplay.FindString(s); m != "" {
		return time.Parse("2006-01-02 15:04:05.999999999 -0700 MST", m)
	}
	if m := reRFC3339.FindString(s); m != "" {
		return time.Parse(time.RFC3339Nano, m)
	}
	return time.Time{}, fmt.Errorf("no date and time in %q", s)
}

func gnssTime(prop string, anyStart bool) func(*hx.Ctx) *hx.Outcome {
	return func(c *hx.Ctx) *hx.Outcome {
		o := &hx.Outcome{}
		t := c.T
		T := genInstant(t)
		loc, locName := genLocation(t)
		if tr := dstTransitions(loc, T); len(tr) > 0 && t.SBool(1, 3) {
			// the week after a clock change of the start time's zone, at any hour,
			// with extra mass on the first hour after UTC midnight and 21:00 UTC
			base := tr[t.S(len(tr))] + int64(t.S(8))*msDay
			base -= base % msDay
			switch t.SW(2, 2, 1) {
			case 0:
				T = base + int64(t.S(3600000))
			case 1:
				T = base + 21*3600000 + int64(t.S(3600000))
			default:
				T = base + int64(t.S(int(msDay)))
			}
			o.Probe("start-in-week-after-dst-change")
		}
		level := slog.LevelDebug
		if t.SBool(1, 3) {
			level = slog.LevelInfo
		}
		maxEpochs := 60
		if c.Thorough() {
			maxEpochs = 400
		}
		// the start time carries nanoseconds (time.Now() does): any instant, so the
		// sub-millisecond part must not matter
		startNs := []int64{0, 0, 0, 1, 499999, 500000, 999999}[t.S(7)]
		if startNs > 0 {
			o.Probe("start-time-with-nanoseconds")
		}
		// "grid": a real receiver observes all constellations at the same epochs
		// on whole seconds, so GPS and Galileo carry identical timestamps
		// a marathon: hundreds of epochs per constellation, years of simulated time
		marathon := t.SBool(1, 60)
		if marathon {
			o.Probe("marathon-session")
		}
		grid := t.SBool(1, 5)
		if grid {
			o.Probe("epochs-on-a-common-grid")
			T -= T % 1000
			startNs = 0
		}
		// which constellations take part
		var seqs [][]epoch
		var used []string
		for ci, cn := range constellations {
			if t.SW(1, 3) == 0 {
				continue
			}
			ws := cn.weekStart(T)
			we := ws + msWeek
			// first observation
			var u int64
			if anyStart {
				switch t.SW(2, 1, 2) {
				case 0: // before the start time (inside the same constellation week)
					if T == ws {
						u = T
					} else {
						u = ws + int64(t.SF(int(minI64(T-ws, 1<<30)), nil))
						switch t.S(4) {
						case 0: // just before the start time
							u = T - int64(1+t.S(int(minI64(T-ws, 5000))))
						case 1: // in the first seconds of the week, however late in it the start time is
							u = ws + int64(t.S(int(minI64(T-ws, 5000))))
							o.Probe("first-observation-at-the-very-start-of-the-week")
						}
						o.Probe("first-observation-before-start")
					}
				case 1:
					u = T
					o.Probe("first-observation-at-start")
				default:
					u = T + int64(t.S(int(minI64(we-T, 1<<30))))
					if t.S(4) == 0 {
						// in the last seconds of the week, however early in it the start time is
						u = we - int64(1+t.S(int(minI64(we-T, 5000))))
						o.Probe("first-observation-at-the-very-end-of-the-week")
					}
					o.Probe("first-observation-after-start")
				}
			} else {
				switch t.SW(2, 3, 2) {
				case 0:
					u = T
				case 1:
					u = T + int64(t.S(int(minI64(we-T, 120000))))
				default:
					u = T + int64(t.S(int(minI64(we-T, 1<<30))))
				}
			}
			if !anyStart && startNs > 0 && u == T {
				// the start time is T plus a fraction of a millisecond: the first
				// observation must not be earlier than it
				u = T + 1
				if u >= we {
					continue
				}
			}
			if u < ws || u >= we || (!anyStart && u < T) {
				return &hx.Outcome{Infra: fmt.Sprintf("generator slip: first observation %d outside week [%d,%d) of start %d", u, ws, we, T)}
			}
			if grid && !anyStart {
				u = T
			}
			n := 1 + t.SF(maxEpochs/2, func(r *rt.Rand) int {
				if r.Chance(3, 4) {
					return r.Intn(12)
				}
				return r.Intn(maxEpochs / 2)
			})
			if marathon {
				n = 150 + t.S(1200)
			}
			var seq []epoch
			cur := u
			for i := 0; i < n; i++ {
				if i > 0 {
					if marathon {
						cur += int64(1+t.S(5))*msDay + int64(t.S(3600000))
					} else if grid {
						cur += []int64{0, 1000, 30000, 12 * 3600000, msDay, 2 * msDay, 5 * msDay}[t.S(7)]
					} else {
						cur += genGap(t)
					}
				}
				typ := cn.msm4
				if t.S(2) == 1 {
					typ = cn.msm7
				}
				// illegal timestamps inserted anywhere
				if t.SW(12, 1) == 1 {
					var f uint32
					if cn.glo {
						switch t.S(3) {
						case 0:
							f = 7<<27 | uint32(t.S(int(msDay)))
						case 1:
							f = uint32(t.S(7))<<27 | uint32(int(msDay)+t.S(1<<27-int(msDay)))
						default:
							f = 7<<27 | (1<<27 - 1)
						}
					} else {
						f = uint32(int(msWeek) + t.S(1<<30-int(msWeek)))
					}
					seq = append(seq, epoch{c: ci, illegal: true, field: f, typ: typ})
					o.Fault("illegal-timestamp:" + cn.name)
				}
				seq = append(seq, epoch{c: ci, t: cur, field: cn.encode(cur), typ: typ})
			}
			if cur-u >= msWeek {
				o.Probe("rollover-crossed:" + cn.name)
			} else if cn.weekStart(cur) != cn.weekStart(u) {
				o.Probe("rollover-crossed:" + cn.name)
			}
			seqs = append(seqs, seq)
			used = append(used, cn.name)
			o.GNSSWeeks += float64(cur-u) / float64(msWeek)
		}
		if len(seqs) == 0 {
			o.Skip = "no constellation"
			return o
		}
		// any interleaving of the per-constellation sequences
		var order []epoch
		idx := make([]int, len(seqs))
		for {
			var avail []int
			for i := range seqs {
				if idx[i] < len(seqs[i]) {
					avail = append(avail, i)
				}
			}
			if len(avail) == 0 {
				break
			}
			k := avail[t.S(len(avail))]
			order = append(order, seqs[k][idx[k]])
			idx[k]++
		}
		// frames
		frames := make([][]byte, len(order))
		var wire []byte
		for i, e := range order {
			sp := gnss.MSMSpec{Type: e.typ, Station: 1, Timestamp: e.field, SatMask: 1 << 62, SigMask: 1 << 30, CellMask: []bool{true}, BodyBits: -1}
			frames[i] = gnss.Frame(gnss.BuildMSM(nil, sp))
			wire = append(wire, frames[i]...)
		}
		o.ScenHash = gnss.Hash(wire) ^ uint64(T)
		viaStream := t.SW(3, 7) == 1 && !marathon
		start := time.UnixMilli(T).Add(time.Duration(startNs)).In(loc)
		if c.Detail {
			var ep []string
			for i, e := range order {
				if i >= 24 {
					ep = append(ep, fmt.Sprintf("... %d more epochs", len(order)-i))
					break
				}
				if e.illegal {
					ep = append(ep, fmt.Sprintf("%s type %d ILLEGAL field 0x%x", constellations[e.c].name, e.typ, e.field))
				} else {
					ep = append(ep, fmt.Sprintf("%s type %d true %s field %d", constellations[e.c].name, e.typ, formatMs(e.t), e.field))
				}
			}
			o.Sample = map[string]any{"start_time": start.Format(time.RFC3339Nano), "start_utc": formatMs(T), "zone": locName, "constellations": used, "epochs": ep,
				"via": map[bool]string{true: "HandleMessages (scheduled)", false: "GetMessage"}[viaStream], "log_level": level.String()}
		}
		var msgs []rtcm.Message
		var errs []error
		if viaStream {
			o.Probe("via-HandleMessages")
			s := c.NewSim()
			s.ChooseStrategy()
			s.Budget = 64*(len(wire)+16) + 4096
			closed := false
			verdict := s.Run(func() {
				chIn := make(chan byte, []int{0, 64}[t.S(2)])
				chOut := make(chan rtcm.Message, []int{0, 8}[t.S(2)])
				h := rtcm.New(start, level)
				rt.Go("handler", func() { h.HandleMessages(chIn, chOut) })
				rt.Go("producer", func() {
					for _, b := range wire {
						rt.Yield("producer send")
						chIn <- b
						rt.Yield("producer sent")
					}
					rt.Yield("producer close")
					close(chIn)
					rt.Yield("producer closed")
				})
				rt.Go("consumer", func() {
					for {
						rt.Yield("consumer recv")
						m, ok := <-chOut
						rt.Yield("consumer recvd")
						if !ok {
							closed = true
							return
						}
						msgs = append(msgs, m)
						rt.Progress()
					}
				})
			})
			o.Verdict, o.Strategy = verdict, rt.StratNames[s.Strategy]
			if len(s.Panics) > 0 {
				o.Fail(prop+"/panic", "%s", firstLine(s.Panics[0]))
				return o
			}
			if !closed || len(msgs) != len(order) {
				o.Fail(prop+"/stream", "%d of %d MSM frames delivered (verdict %s)", len(msgs), len(order), verdict)
				return o
			}
			errs = make([]error, len(msgs))
		} else {
			o.Probe("via-GetMessage")
			h := rtcm.New(start, level)
			for _, f := range frames {
				m, err, pan := safeGetMessage(h, f)
				if pan != "" {
					o.Fail(prop+"/panic", "GetMessage panicked: %s", pan)
					return o
				}
				if m == nil {
					o.Fail(prop+"/stream", "GetMessage returned no message for a valid frame")
					return o
				}
				msgs = append(msgs, *m)
				errs = append(errs, err)
			}
		}
		for i, e := range order {
			m := msgs[i]
			cn := constellations[e.c]
			where := fmt.Sprintf("message %d of %d (%s type %d; start %s %s)", i+1, len(order), cn.name, e.typ, formatMs(T), locName)
			if m.MessageType != e.typ {
				o.Fail(prop+"/stream", "%s: delivered type %d", where, m.MessageType)
				return o
			}
			if e.illegal {
				o.Probe("illegal-checked")
				if m.ErrorMessage == "" && (viaStream || errs[i] == nil) {
					o.Fail(prop+"/illegal-timestamp-accepted", "%s: illegal timestamp field 0x%x reported without an error: %q", where, e.field, m.SentAt)
					return o
				}
				if _, err := parseReported(m.SentAt, "Time "); err == nil {
					o.Fail(prop+"/illegal-timestamp-accepted", "%s: illegal timestamp field 0x%x reported as a time: %q", where, e.field, m.SentAt)
					return o
				}
				continue
			}
			o.Probe("valid-epochs-checked")
			if !viaStream && errs[i] != nil {
				o.Fail(prop+"/error-on-valid", "%s: valid observation at %s (field %d) reported as an error: %v", where, formatMs(e.t), e.field, errs[i])
				return o
			}
			got, err := parseReported(m.SentAt, "Time ")
			if err != nil {
				o.Fail(prop+"/error-on-valid", "%s: valid observation at %s (field %d) has no time: %q %q", where, formatMs(e.t), e.field, m.SentAt, m.ErrorMessage)
				return o
			}
			if got.UnixMilli() != e.t {
				d := time.Duration(got.UnixMilli()-e.t) * time.Millisecond
				cls := prop + "/wrong-time"
				if d == 7*24*time.Hour {
					cls = prop + "/time-plus-one-week"
				} else if d == -7*24*time.Hour {
					cls = prop + "/time-minus-one-week"
				} else if d%(7*24*time.Hour) == 0 {
					cls = prop + "/time-off-by-weeks"
				}
				o.Fail(cls, "%s: true time %s, reported %q (off by %v)", where, formatMs(e.t), m.SentAt, d)
				return o
			}
			sw, err := parseReported(m.StartOfWeek, "Start of "+cn.name+" week ")
			if err != nil {
				o.Fail(prop+"/start-of-week-missing", "%s: %v", where, err)
				return o
			}
			if want := cn.weekStart(e.t); sw.UnixMilli() != want {
				o.Fail(prop+"/wrong-start-of-week", "%s: observation at %s: true start of week %s, reported %q", where, formatMs(e.t), formatMs(want), m.StartOfWeek)
				return o
			}
			if m.Timestamp != uint(e.field) {
				o.Fail(prop+"/timestamp-field", "%s: Timestamp %d, encoded %d", where, m.Timestamp, e.field)
				return o
			}
		}
		o.Nontrivial = len(order) > 0
		return o
	}
}

func minI64(a, b int64) int64 {
	if a < b {
		return a
	}
	return b
}
