package lib

import (
	"encoding/binary"
	"fmt"
	"strings"
	"time"

	"github.com/anishathalye/porcupine"
	cq "github.com/goblimey/go-ntrip/apps/proxy/circular_queue"
	rtcm "github.com/goblimey/go-ntrip/rtcm/handler"
	"verif/vsim/hx"
	"verif/vsim/rt"
)

// C18: the recent-message queue is a linearizable "last N".

type qIn struct {
	add bool
	id  uint64
}

type qOut struct {
	ids []uint64
}

func idsKey(ids []uint64) string {
	var sb strings.Builder
	for _, x := range ids {
		fmt.Fprintf(&sb, "%d,", x)
	}
	return sb.String()
}

func queueModel(n int) porcupine.Model {
	return porcupine.Model{
		Init: func() interface{} { return "" },
		Step: func(state, input, output interface{}) (bool, interface{}) {
			st := state.(string)
			in := input.(qIn)
			if in.add {
				parts := strings.Split(strings.TrimSuffix(st, ","), ",")
				if st == "" {
					parts = nil
				}
				parts = append(parts, fmt.Sprint(in.id))
				if len(parts) > n {
					parts = parts[len(parts)-n:]
				}
				return true, strings.Join(parts, ",") + ","
			}
			out := output.(qOut)
			return idsKey(out.ids) == st, st
		},
		Equal: func(a, b interface{}) bool { return a.(string) == b.(string) },
		DescribeOperation: func(input, output interface{}) string {
			in := input.(qIn)
			if in.add {
				return fmt.Sprintf("Add(%d)", in.id)
			}
			return fmt.Sprintf("GetMessages() -> %v", output.(qOut).ids)
		},
	}
}

type keptSnap struct {
	msgs []rtcm.Message
	ids  []uint64
}

func msgWithID(id uint64) rtcm.Message {
	b := make([]byte, 8)
	binary.BigEndian.PutUint64(b, id)
	return rtcm.Message{MessageType: 1005, RawData: b}
}

func idOf(m rtcm.Message) uint64 {
	if len(m.RawData) != 8 {
		return ^uint64(0)
	}
	return binary.BigEndian.Uint64(m.RawData)
}

func idsOf(ms []rtcm.Message) []uint64 {
	out := make([]uint64, len(ms))
	for i, m := range ms {
		out[i] = idOf(m)
	}
	return out
}

// fastForward: the queue's position counter as it would stand after a long
// history (the field is exported; setting it stands for that many earlier
// additions, which no run could execute one by one).  Values sit just below
// powers of two where fixed-width counters wrap; 2^63 is left out (unreachable
// in any deployment, and the code says so).
// indexedByCounter reports whether the queue under test keeps its messages in
// the exported map under keys taken from the exported position counter (the
// shipped implementation).  Only then does setting the counter stand for a
// longer history; a re-implementation that ignores or re-purposes those fields
// is left alone.
func indexedByCounter() bool {
	q := cq.NewCircularQueue(2)
	if q.Items == nil || q.NextIndex != 0 {
		return false
	}
	q.Add(msgWithID(1))
	if _, ok := q.Items[0]; !ok || len(q.Items) != 1 || q.NextIndex != 1 {
		return false
	}
	q.NextIndex = 40
	q.Add(msgWithID(2))
	_, ok := q.Items[40]
	return ok && q.NextIndex == 41 && len(q.Items) == 2
}

// (probed in a goroutine of its own: a queue whose lock is left locked on some
// path must not block the start of the worker; it then counts as "not indexed")
var ffApplicable = func() bool {
	ch := make(chan bool, 1)
	go func() {
		defer func() {
			if recover() != nil {
				ch <- false
			}
		}()
		ch <- indexedByCounter()
	}()
	select {
	case v := <-ch:
		return v
	case <-time.After(20 * time.Second):
		return false
	}
}()

func fastForward(t *rt.Tape, o *hx.Outcome) int {
	if t.SW(3, 1) == 0 {
		return 0
	}
	if !ffApplicable {
		o.Probe("fast-forward-not-applicable(queue not indexed by its exported counter)")
		return 0
	}
	o.Fault("fast-forwarded-history")
	return threshold(t, o) - 1 - t.S(12)
}

// threshold draws a round number at which a counter might wrap or be reset:
// a power of two or a power of ten.
func threshold(t *rt.Tape, o *hx.Outcome) int {
	if t.S(3) == 0 {
		k := []int{3, 6, 9}[t.S(3)]
		o.Probe(fmt.Sprintf("fast-forward-to-10^%d", k))
		v := 1
		for i := 0; i < k; i++ {
			v *= 10
		}
		return v
	}
	k := []uint{7, 8, 15, 16, 31, 32}[t.S(6)]
	o.Probe(fmt.Sprintf("fast-forward-to-2^%d", k))
	return int(int64(1) << k)
}

// relabel moves the queue's whole index space up (keys and position counter
// alike): the state an identical content would have after a much longer history.
func relabel(q *cq.CircularQueue, to int) {
	d := to - q.NextIndex
	if d <= 0 {
		return
	}
	items := make(map[int]rtcm.Message, len(q.Items))
	for k, v := range q.Items {
		items[k+d] = v
	}
	q.Items = items
	q.NextIndex += d
}

func runC18(c *hx.Ctx) *hx.Outcome {
	o := &hx.Outcome{}
	t := c.T
	n := 1 + t.S(8)
	ff := fastForward(t, o)
	if t.SW(3, 1) == 1 {
		return runC18Sequential(c, o, n, ff)
	}
	adders := 1 + t.S(3)
	readers := 1 + t.S(3)
	maxOps := 24
	total := 2 + t.S(maxOps-1)
	// distribute the operations over the clients
	type client struct {
		add bool
		ops int
	}
	clients := make([]client, 0, adders+readers)
	for i := 0; i < adders; i++ {
		clients = append(clients, client{add: true})
	}
	for i := 0; i < readers; i++ {
		clients = append(clients, client{})
	}
	for i := 0; i < total; i++ {
		clients[t.S(len(clients))].ops++
	}
	o.ScenHash = uint64(n)<<56 ^ uint64(adders)<<48 ^ uint64(readers)<<40 ^ uint64(total)<<32
	for i, cl := range clients {
		o.ScenHash ^= uint64(cl.ops) << uint(4*i)
	}
	s := c.NewSim()
	s.ChooseStrategy()
	s.EnableStmt(rt.PkgQueue)
	s.Budget = 4000*total + 20000
	q := cq.NewCircularQueue(n)
	q.NextIndex = ff
	o.ScenHash ^= uint64(ff) * 0x9e3779b97f4a7c15
	var ops []porcupine.Operation
	var kept []keptSnap
	clock := int64(0)
	nextID := uint64(0)
	oversize := 0
	tick := func() int64 {
		clock++
		if len(q.Items) > n {
			oversize = len(q.Items)
		}
		return clock
	}
	verdict := s.Run(func() {
		for ci, cl := range clients {
			ci, cl := ci, cl
			name := fmt.Sprintf("reader%d", ci)
			if cl.add {
				name = fmt.Sprintf("adder%d", ci)
			}
			rt.Go(name, func() {
				for k := 0; k < cl.ops; k++ {
					rt.Yield("client invoke")
					if cl.add {
						nextID++
						id := nextID
						call := tick()
						s.Logf("%s invoke Add(%d) @%d", name, id, call)
						q.Add(msgWithID(id))
						ret := tick()
						s.Logf("%s return Add(%d) @%d", name, id, ret)
						rt.Progress()
						ops = append(ops, porcupine.Operation{ClientId: ci, Input: qIn{add: true, id: id}, Call: call, Output: qOut{}, Return: ret})
					} else {
						call := tick()
						s.Logf("%s invoke Get @%d", name, call)
						snap := q.GetMessages()
						got := idsOf(snap)
						kept = append(kept, keptSnap{snap, got})
						ret := tick()
						s.Logf("%s return Get %v @%d", name, got, ret)
						rt.Progress()
						ops = append(ops, porcupine.Operation{ClientId: ci, Input: qIn{}, Call: call, Output: qOut{ids: got}, Return: ret})
					}
					rt.Yield("client returned")
				}
			})
		}
	})
	o.Verdict, o.Strategy = verdict, rt.StratNames[s.Strategy]
	o.ProbeN("lock-contention-observed", s.LockContention)
	o.ProbeN("operations", len(ops))
	if c.Detail {
		var hist []string
		for _, op := range ops {
			in := op.Input.(qIn)
			if in.add {
				hist = append(hist, fmt.Sprintf("client %d Add(%d) [%d,%d]", op.ClientId, in.id, op.Call, op.Return))
			} else {
				hist = append(hist, fmt.Sprintf("client %d Get -> %v [%d,%d]", op.ClientId, op.Output.(qOut).ids, op.Call, op.Return))
			}
		}
		o.Sample = map[string]any{"capacity": n, "adders": adders, "readers": readers, "operations": total, "history": hist, "position_counter_fast_forwarded_to": ff}
	}
	if len(s.Panics) > 0 {
		o.Fail("C18/panic", "%s", firstLine(s.Panics[0]))
		return o
	}
	if verdict != rt.Done || len(ops) != total {
		o.Fail("C18/not-finished", "verdict %s, %d of %d operations completed, live %v (a lock never released?)", verdict, len(ops), total, s.Live())
		return o
	}
	if oversize > 0 {
		o.Fail("C18/over-capacity", "the queue held %d messages, capacity %d", oversize, n)
		return o
	}
	// a snapshot belongs to its caller: later additions must not change it
	for _, k := range kept {
		if idsKey(idsOf(k.msgs)) != idsKey(k.ids) {
			o.Fail("C18/snapshot-changed-later", "a snapshot that read %v when it was returned reads %v after later additions", k.ids, idsOf(k.msgs))
			return o
		}
	}
	res, _ := porcupine.CheckOperationsVerbose(queueModel(n), ops, 10*time.Second)
	switch res {
	case porcupine.Illegal:
		var hist []string
		for _, op := range ops {
			in := op.Input.(qIn)
			if in.add {
				hist = append(hist, fmt.Sprintf("c%d Add(%d)[%d,%d]", op.ClientId, in.id, op.Call, op.Return))
			} else {
				hist = append(hist, fmt.Sprintf("c%d Get%v[%d,%d]", op.ClientId, op.Output.(qOut).ids, op.Call, op.Return))
			}
		}
		o.Fail("C18/not-linearizable", "history is not linearizable against the last-%d model: %s", n, strings.Join(hist, " "))
	case porcupine.Unknown:
		o.Probe("porcupine-unknown(timeout)")
	default:
		o.Probe("porcupine-ok")
	}
	o.Nontrivial = len(ops) >= 2
	return o
}

// runC18Sequential: long single-client runs far beyond the capacity.  The
// calls are made from a scheduled goroutine, so that a lock which some path
// leaves locked ends the run as a deadlock verdict instead of blocking the
// worker on a real mutex.
func runC18Sequential(c *hx.Ctx, o *hx.Outcome, n, ff int) *hx.Outcome {
	s := c.NewSim()
	var res *hx.Outcome
	verdict := s.Run(func() { res = runC18SequentialBody(c, o, n, ff) })
	if len(s.Panics) > 0 {
		o.Fail("C18/panic", "%s", firstLine(s.Panics[0]))
		return o
	}
	if res == nil {
		o.Fail("C18/not-finished", "a single client adding and taking snapshots one after the other did not finish (verdict %s, %d steps): a lock never released?", verdict, s.Steps)
		return o
	}
	return res
}

func runC18SequentialBody(c *hx.Ctx, o *hx.Outcome, n, ff int) *hx.Outcome {
	t := c.T
	total := 10 + t.S(3000)
	if c.Thorough() && t.S(10) == 0 {
		total = 20000 + t.S(80000)
	}
	o.ScenHash = uint64(n)<<56 ^ uint64(total) ^ uint64(ff)*0x9e3779b97f4a7c15
	q := cq.NewCircularQueue(n)
	q.NextIndex = ff
	var model []uint64
	snapEvery := 1 + t.S(50)
	o.Probe("sequential-long-runs")
	var keptSeq []keptSnap
	warpAt, warpTo := -1, 0
	if t.SBool(1, 3) && ffApplicable {
		// a fast-forward in the middle of the history, after some snapshots
		warpAt = 1 + t.S(total)
		warpTo = threshold(t, o) - 1 - t.S(2*n+4)
		o.Fault("fast-forward-mid-history")
	}
	for i := 1; i <= total; i++ {
		if i == warpAt {
			relabel(q, warpTo)
		}
		q.Add(msgWithID(uint64(i)))
		rt.Progress()
		model = append(model, uint64(i))
		if len(model) > n {
			model = model[1:]
		}
		if len(q.Items) > n {
			o.Fail("C18/over-capacity", "after %d additions the queue holds %d messages, capacity %d", i, len(q.Items), n)
			return o
		}
		if i%snapEvery == 0 || i == total {
			snap := q.GetMessages()
			got := idsOf(snap)
			if len(keptSeq) < 40 {
				keptSeq = append(keptSeq, keptSnap{snap, got})
			}
			if idsKey(got) != idsKey(model) {
				o.Fail("C18/wrong-snapshot", "capacity %d, after %d additions: snapshot %v, expected the last %d: %v", n, i, got, len(model), model)
				return o
			}
		}
	}
	for _, k := range keptSeq {
		if idsKey(idsOf(k.msgs)) != idsKey(k.ids) {
			o.Fail("C18/snapshot-changed-later", "a snapshot that read %v when it was returned reads %v after later additions", k.ids, idsOf(k.msgs))
			return o
		}
	}
	if c.Detail {
		o.Sample = map[string]any{"capacity": n, "sequential_additions": total, "snapshot_every": snapEvery, "position_counter_fast_forwarded_to": ff}
	}
	o.Nontrivial = true
	o.ScenHash ^= uint64(snapEvery) << 40
	return o
}
