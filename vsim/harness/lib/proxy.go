package lib

import (
	"bytes"
	"fmt"
	"net"
	"time"

	"verif/vsim/env"
	"verif/vsim/gnss"
	"verif/vsim/hx"
	"verif/vsim/rt"
)

// C19: the proxy relays both directions byte-for-byte and reports traffic safely.

type ProxyHooks struct {
	Status      func() []byte
	EmptyStatus func() []byte
	QueueRaw    func() [][]byte
	QueueCap    int
	// Reset puts the program's package variables back to their declared values (a run is a process)
	Reset func()
	// Listener, when the build could provide it, runs the program's real start()
	// over the simulated network (proxy_listen.go)
	Listener *ProxyStartHooks
	// Direct, when the build could provide it, lets the harness do start()'s wiring
	// and run the real handleMessages over one pair of simulated connections
	Direct *ProxyDirectHooks
}

type ProxyDirectHooks struct {
	Setup  func(logDir string)
	Handle func(server, client net.Conn)
}

var markup = [][]byte{[]byte("<script>alert(1)</script>"), []byte("<b>"), []byte("</div>"), []byte("<"), []byte(">"), []byte("<img src=x onerror=y>")}

// proxyTraffic draws one direction's byte stream: valid frames, CRC-valid
// malformed frames, random bytes and text; markup bytes in junk and payloads.
func proxyTraffic(c *hx.Ctx, o *hx.Outcome, dir string) []byte {
	t := c.T
	n := t.S(6)
	if c.Thorough() {
		n = t.S(12)
	}
	var b []byte
	if t.SBool(1, 3) {
		// an NTRIP session starts with an HTTP-style handshake: the client's request
		// (mountpoint, user agent, credentials) and the caster's reply
		mp := []string{"MOUNT1", "RTCM3_EPH", "a/b c", "<b>x</b>", "%3Cscript%3E", "m?x=<y>&z=\"q\"", "M'><img src=x>"}[t.S(7)]
		if dir == "client" {
			b = append(b, []byte("GET /"+mp+" HTTP/1.1\r\nHost: caster.example\r\nNtrip-Version: Ntrip/2.0\r\nUser-Agent: NTRIP <client>/1.0\r\nAuthorization: Basic dXNlcjo8cGFzcz4=\r\n\r\n")...)
		} else {
			b = append(b, []byte([]string{"ICY 200 OK\r\n\r\n", "HTTP/1.1 200 OK\r\nNtrip-Version: Ntrip/2.0\r\nServer: <caster>\r\n\r\n", "SOURCETABLE 200 OK\r\nSTR;" + mp + ";;RTCM 3;\r\nENDSOURCETABLE\r\n"}[t.S(3)])...)
		}
		o.Probe(dir + ":ntrip-handshake")
	}
	for i := 0; i < n; i++ {
		switch t.SW(4, 2, 2, 2, 2, 2) {
		case 5:
			// line noise with stray 0xD3 bytes: the parser resynchronises
			b = append(b, gnss.GenGarbage(t).Bytes...)
			o.Probe(dir + ":garbage-with-stray-d3")
		case 0:
			b = append(b, gnss.GenFrame(t, gnss.Opts{LongOneIn: 10}).Bytes...)
			o.Probe(dir + ":valid-frame")
		case 1:
			b = append(b, gnss.GenHostileFrame(t).Bytes...)
			o.Probe(dir + ":crc-valid-malformed-frame")
		case 2:
			b = append(b, gnss.GenJunk(t).Bytes...)
			o.Probe(dir + ":junk")
		case 3:
			// markup in non-RTCM data
			b = append(b, markup[t.S(len(markup))]...)
			o.Probe(dir + ":markup-in-junk")
		default:
			// markup inside a valid frame's payload
			typ := gnss.GenType(t, false)
			m := markup[t.S(len(markup))]
			p := append([]byte{byte(typ >> 4), byte(typ&0xF) << 4}, m...)
			b = append(b, gnss.Frame(p)...)
			o.Probe(dir + ":markup-in-payload")
		}
	}
	return b
}

func angle(b []byte) int { return bytes.Count(b, []byte("<")) + bytes.Count(b, []byte(">")) }

func C19(h ProxyHooks) func(*hx.Ctx) *hx.Outcome {
	return func(c *hx.Ctx) *hx.Outcome {
		o := &hx.Outcome{}
		t := c.T
		// half of the runs go through the program's own start(): accept loop, one
		// upstream call per client, several connections through one proxy; the other
		// half wire one session by hand (whichever of the two the build could provide)
		listener := h.Listener != nil && h.Listener.NetSeam
		if !listener && h.Direct == nil {
			o.Infra = "neither the listener-mode nor the direct-mode harness of the proxy fits this program (no verdict)"
			return o
		}
		if pick := t.SBool(1, 2); listener && (pick || h.Direct == nil) {
			return c19Listener(c, o, h)
		}
		if h.Direct == nil {
			return c19Listener(c, o, h)
		}
		o.Probe("direct-mode")
		up := proxyTraffic(c, o, "client")   // client -> caster
		down := proxyTraffic(c, o, "caster") // caster -> client
		if t.SBool(1, 4) {
			down = nil
		}
		o.ScenHash = gnss.Hash(up)*31 ^ gnss.Hash(down)
		maxChunk := []int{1, 7, 64, 2048, 5000}[t.S(5)]
		nStatus := t.S(4)
		if c.Detail {
			o.Sample = map[string]any{"client_to_caster_len": len(up), "client_to_caster_hex": hexShort(up), "caster_to_client_len": len(down), "caster_to_client_hex": hexShort(down),
				"max_chunk": maxChunk, "status_requests": nStatus}
		}
		s := c.NewSim()
		s.ChooseStrategy()
		s.EnableStmt(rt.PkgReportFeed)
		s.SetStarveKey([]string{"proxy-parser", "proxy-queue-updater", "tcpprox.go", "ntrip-client", "caster"}[t.D(5)])
		fineGrained(c, s, o)
		s.Budget = 60*(len(up)+len(down)+64) + 40000
		// proxy side conns and their peers
		// bounded TCP buffers (a write blocks while the peer does not read) and
		// peers that stall for a while in simulated time
		bufCap := []int{0, 0, 16, 256, 4096}[t.S(5)]
		casterStall := []time.Duration{0, 0, 0, 200 * time.Millisecond, 7 * time.Second, 3 * time.Minute}[t.S(6)]
		clientStall := []time.Duration{0, 0, 0, 200 * time.Millisecond, 7 * time.Second, 3 * time.Minute}[t.S(6)]
		if bufCap > 0 {
			o.Fault("tcp:bounded-buffers")
		}
		if casterStall > 0 {
			o.Fault("caster:stalls")
		}
		if clientStall > 0 {
			o.Fault("client:stalls")
		}
		if c.Detail {
			sm := o.Sample.(map[string]any)
			sm["tcp_buffer"], sm["caster_stall"], sm["client_stall"] = bufCap, casterStall.String(), clientStall.String()
		}
		clientPeer, proxyClient := env.PipeCap(t, "ntrip-client", "proxy-client-side", bufCap)
		casterPeer, proxyServer := env.PipeCap(t, "caster", "proxy-server-side", bufCap)
		for _, cn := range []*env.Conn{clientPeer, proxyClient, casterPeer, proxyServer} {
			cn.MaxChunk = maxChunk
		}
		empty := -1
		var pageViolation string
		statusCalls := 0
		handled := false
		checkPage := func(when string) {
			page := h.Status()
			statusCalls++
			if a := angle(page); a != empty {
				if pageViolation == "" {
					pageViolation = fmt.Sprintf("%s: the status page holds %d raw angle brackets, an empty report rendered by the same code holds %d", when, a, empty)
				}
			}
		}
		// the disk under the message log: slow, failing, full (the relay must not care)
		disk := env.GenDisk(t, true, ".rtcm")
		rt.SetFileHook(disk.Hook)
		defer rt.SetFileHook(nil)
		defer func() { diskProbes(o, disk) }()
		if c.Detail {
			o.Sample.(map[string]any)["message_log_disk"] = disk.Describe()
		}
		preStart := nearMidnight(t, o, s)
		verdict := s.Run(func() {
			preStart()
			if h.Reset != nil {
				h.Reset()
			}
			h.Direct.Setup(c.TempDir())
			empty = angle(h.EmptyStatus())
			// each peer reads and writes concurrently, as a TCP application must
			// (two peers that both write everything before reading deadlock on
			// bounded buffers whatever sits between them)
			upDone := make(chan struct{})
			rt.Go("ntrip-client-writer", func() {
				rest := up
				for len(rest) > 0 {
					n := 1 + t.D(len(rest))
					if n > maxChunk {
						n = 1 + t.D(maxChunk)
					}
					clientPeer.Write(rest[:n])
					rest = rest[n:]
				}
				rt.Yield("client writer done")
				close(upDone)
				rt.Yield("client writer closed upDone")
			})
			rt.Go("ntrip-client-reader", func() {
				// receive everything the caster sends, then (once everything was sent) hang up
				buf := make([]byte, 4096)
				if clientStall > 0 {
					time.Sleep(clientStall)
					rt.Yield("client stalled")
				}
				for len(clientPeer.ReadBuf) < len(down) {
					if _, err := clientPeer.Read(buf); err != nil {
						break
					}
				}
				rt.Yield("client reader waits for writer")
				<-upDone
				rt.Yield("client reader: writer done")
				clientPeer.Close()
			})
			rt.Go("caster-writer", func() {
				rest := down
				for len(rest) > 0 {
					n := 1 + t.D(len(rest))
					if n > maxChunk {
						n = 1 + t.D(maxChunk)
					}
					if _, err := casterPeer.Write(rest[:n]); err != nil {
						return
					}
					rest = rest[n:]
				}
			})
			rt.Go("caster-reader", func() {
				buf := make([]byte, 4096)
				stalled := false
				for {
					if casterStall > 0 && !stalled && len(casterPeer.ReadBuf) >= len(up)/3 {
						// the caster stops reading for a while but stays connected
						stalled = true
						time.Sleep(casterStall)
						rt.Yield("caster stalled")
					}
					if _, err := casterPeer.Read(buf); err != nil {
						return
					}
				}
			})
			if nStatus > 0 {
				rt.Go("status-requests", func() {
					for i := 0; i < nStatus; i++ {
						k := t.D(40)
						for j := 0; j < k; j++ {
							rt.Yield("operator idle")
						}
						checkPage(fmt.Sprintf("status request %d during the session", i+1))
					}
				})
			}
			h.Direct.Handle(proxyServer, proxyClient)
			handled = true
		})
		o.Verdict, o.Strategy = verdict, rt.StratNames[s.Strategy]
		o.ProbeN("status-requests", statusCalls)
		o.ProbeN("lock-contention-observed", s.LockContention)
		o.ProbeN("proxy-write-blocked-on-full-buffer", proxyServer.WriteBlocked+proxyClient.WriteBlocked)
		o.SimTime = s.Elapsed()
		if len(s.Panics) > 0 {
			o.Fail("C19/panic", "%s", firstLine(s.Panics[0]))
			return o
		}
		if !handled {
			o.Fail("C19/session-stuck", "handleMessages did not return after the client hung up (verdict %s, %d steps; caster got %d of %d bytes, client got %d of %d)", verdict, s.Steps,
				len(casterPeer.ReadBuf), len(up), len(clientPeer.ReadBuf), len(down))
			return o
		}
		if d := firstDiff(casterPeer.ReadBuf, up); d >= 0 {
			cls := "C19/upstream-differs"
			if len(casterPeer.ReadBuf) < len(up) && bytes.Equal(casterPeer.ReadBuf, up[:len(casterPeer.ReadBuf)]) {
				cls = "C19/upstream-withheld"
			}
			o.Fail(cls, "the caster received %d bytes, the client sent %d; first difference at %d", len(casterPeer.ReadBuf), len(up), d)
		}
		if d := firstDiff(clientPeer.ReadBuf, down); d >= 0 {
			cls := "C19/downstream-differs"
			if len(clientPeer.ReadBuf) < len(down) && bytes.Equal(clientPeer.ReadBuf, down[:len(clientPeer.ReadBuf)]) {
				cls = "C19/downstream-withheld"
			}
			o.Fail(cls, "the client received %d bytes, the caster sent %d; first difference at %d", len(clientPeer.ReadBuf), len(down), d)
		}
		// The report at quiescence.  The calls go through a second scheduler run so
		// that a lock which the session left locked for good ends as a deadlock
		// verdict of that run (no page: the page checks are skipped) instead of
		// blocking this worker on a real mutex.
		var q [][]byte
		var page []byte
		pageDone := false
		s2 := c.NewSim()
		s2.Run(func() {
			q = h.QueueRaw()
			page = h.Status()
			pageDone = true
		})
		if !pageDone {
			o.Probe("status-request-after-the-session-did-not-return")
			o.Nontrivial = len(up)+len(down) > 0
			return o
		}
		// the report lists only what the client actually sent
		var qcat []byte
		for _, r := range q {
			qcat = append(qcat, r...)
		}
		if len(q) > h.QueueCap {
			o.Fail("C19/queue-over-capacity", "%d messages in the report queue, capacity %d", len(q), h.QueueCap)
		}
		if len(qcat) > 0 {
			o.Probe("report-lists-messages")
			if !bytes.Contains(up, qcat) {
				o.Fail("C19/report-not-relayed-traffic", "the messages listed in the report (%d messages, %d bytes) are not a contiguous run of the client's stream: %s", len(q), len(qcat), hexShort(qcat))
			}
		}
		if n := countHeaders(page); n != len(q) {
			o.Fail("C19/report-entries", "the status page shows %d message entries, the queue holds %d", n, len(q))
		}
		if a := angle(page); a != empty && pageViolation == "" {
			pageViolation = fmt.Sprintf("after the session: the status page holds %d raw angle brackets, an empty report rendered by the same code holds %d", a, empty)
		}
		if pageViolation != "" {
			o.Fail("C19/unescaped-markup", "%s", pageViolation)
		}
		if angle(up)+angle(down) > 0 {
			o.Probe("traffic-with-angle-brackets")
		}
		// message log: a prefix of the client's stream
		logged, nf := readOne(c.TempDir(), "data.", ".rtcm")
		if nf == 1 && disk.Errors == 0 && !bytes.HasPrefix(up, logged) {
			// what the message log holds is not part of the statement (only that
			// writing it never disturbs the relay): recorded, not judged
			o.Probe("message-log-is-not-a-prefix-of-the-client-stream")
		}
		o.Nontrivial = len(up)+len(down) > 0
		return o
	}
}
