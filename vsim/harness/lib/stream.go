package lib

import (
	"bytes"
	"fmt"
	"log/slog"
	"time"

	rtcm "github.com/goblimey/go-ntrip/rtcm/handler"
	"verif/vsim/gnss"
	"verif/vsim/hx"
	"verif/vsim/rt"
)

// The stream harness: a simulated line (producer goroutine) feeds the real
// HandleMessages goroutine through ch_in; a consumer goroutine drains ch_out.
// All three are gated; channel capacities, who is slow and every interleaving
// come from the tape.

type pipeRun struct {
	msgs       []rtcm.Message
	closedSeen int
	afterClose int
	verdict    string
	panics     []string
	live       []string
	steps      int
	strategy   string
}

type pipeCfg struct {
	capIn, capOut int
	slowProd      int // extra yields per byte
	slowCons      int // extra yields per message
	closeAfter    int // bytes sent before the input is closed (-1: all)
}

func genPipeCfg(t *rt.Tape, n int) pipeCfg {
	caps := []int{0, 1, 2, 64, n + 1}
	outs := []int{0, 1, 8}
	return pipeCfg{capIn: caps[t.S(len(caps))], capOut: outs[t.S(len(outs))], slowProd: t.SW(6, 1, 1), slowCons: t.SW(6, 1, 1) * 3, closeAfter: -1}
}

var startTime = time.Date(2023, 5, 10, 12, 0, 0, 0, time.UTC)

func runPipe(c *hx.Ctx, wire []byte, cfg pipeCfg, logLevel slog.Level, display bool) *pipeRun {
	s := c.NewSim()
	s.ChooseStrategy()
	n := len(wire)
	if cfg.closeAfter >= 0 && cfg.closeAfter < n {
		n = cfg.closeAfter
	}
	s.Budget = 64*(n+16) + 4096
	if display {
		s.Budget *= 2
	}
	pr := &pipeRun{}
	victims := []string{"producer", "handler", "consumer"}
	s.SetStarveKey(victims[c.T.D(len(victims))])
	pr.verdict = s.Run(func() {
		chIn := make(chan byte, cfg.capIn)
		chOut := make(chan rtcm.Message, cfg.capOut)
		h := rtcm.New(startTime, logLevel)
		rt.Go("handler", func() { h.HandleMessages(chIn, chOut) })
		rt.Go("producer", func() {
			for i := 0; i < n; i++ {
				for k := 0; k < cfg.slowProd; k++ {
					rt.Yield("producer slow")
				}
				rt.Yield("producer send")
				chIn <- wire[i]
				rt.Yield("producer sent")
			}
			rt.Yield("producer close")
			close(chIn)
			rt.Yield("producer closed")
		})
		rt.Go("consumer", func() {
			for {
				rt.Yield("consumer recv")
				m, ok := <-chOut
				rt.Yield("consumer recvd")
				if !ok {
					pr.closedSeen++
					s.Logf("consumer: closed")
					return
				}
				s.Logf("consumer: type %d len %d", m.MessageType, len(m.RawData))
				rt.Progress()
				pr.msgs = append(pr.msgs, m)
				if display {
					txt := m.String()
					if len(txt) == 0 {
						pr.panics = append(pr.panics, "empty display text")
					}
				}
				for k := 0; k < cfg.slowCons; k++ {
					rt.Yield("consumer slow")
				}
			}
		})
	})
	pr.panics = append(pr.panics, s.Panics...)
	pr.live = s.Live()
	pr.steps = s.Steps
	pr.strategy = rt.StratNames[s.Strategy]
	return pr
}

// fineGrained switches on statement-granularity yields in the concurrent glue
// packages for one run in five.
func fineGrained(c *hx.Ctx, s *rt.Sim, o *hx.Outcome) {
	if c.T.D(6) == 0 {
		// stalled goroutines: one run in six
		s.Freeze = true
		if o != nil {
			o.Fault("goroutine-stalls-in-simulated-time")
		}
	}
	if c.T.D(5) == 0 {
		s.EnableStmt(rt.PkgFileHandler, rt.PkgAppCore, rt.PkgApps, rt.PkgProxy, rt.PkgPushback)
		if o != nil {
			o.Probe("fine-grained-schedule")
		}
	}
}

func concatRaw(msgs []rtcm.Message) []byte {
	var b []byte
	for _, m := range msgs {
		b = append(b, m.RawData...)
	}
	return b
}

func hexShort(b []byte) string {
	const max = 48
	if len(b) <= max {
		return fmt.Sprintf("%x", b)
	}
	return fmt.Sprintf("%x…(%d bytes)", b[:max], len(b))
}

func firstDiff(a, b []byte) int {
	n := len(a)
	if len(b) < n {
		n = len(b)
	}
	for i := 0; i < n; i++ {
		if a[i] != b[i] {
			return i
		}
	}
	if len(a) != len(b) {
		return n
	}
	return -1
}

// genNoisyStream draws the C01/C02 kind of stream: everything the device,
// the talker, a byzantine sender and the line can produce.
func genNoisyStream(c *hx.Ctx, o *hx.Outcome) (segs []gnss.Segment, wire []byte, faults []gnss.LineFault) {
	t := c.T
	opts := gnss.Opts{MaxSegs: 6, LongOneIn: 8, Garbage: true, Tail: true}
	if c.Thorough() {
		opts.MaxSegs, opts.LongOneIn = 14, 3
	}
	segs = gnss.GenStream(t, opts)
	if b := genBulk(c, o); b != nil {
		segs = b
	}
	// byzantine frames
	if t.SBool(1, 5) {
		k := t.S(len(segs) + 1)
		b := gnss.ByzantineFrame(t)
		segs = append(segs[:k:k], append([]gnss.Segment{b}, segs[k:]...)...)
		o.Fault("byzantine-frame")
	}
	wire, faults = gnss.ApplyLineFaults(t, segs, 3)
	for _, f := range faults {
		o.Fault("line:" + f.Kind)
	}
	for _, sg := range segs {
		switch sg.Kind {
		case gnss.KindGarbage:
			o.Probe("seg:garbage")
		case gnss.KindTail:
			o.Probe("seg:tail")
		case gnss.KindFrame:
			o.Probe("seg:frame")
			n := len(sg.Bytes)
			for i := 1; i <= 3; i++ {
				if sg.Bytes[n-i] == 0xD3 {
					o.Probe(fmt.Sprintf("d3-in-crc-byte-%d", 4-i))
				}
			}
		case gnss.KindJunk:
			o.Probe("seg:junk")
		}
	}
	return
}

// genBulk: now and then the stream is a very long alternation of tiny junk runs
// and tiny frames — hundreds, thousands or (rarely) more than 2^16 of them:
// counters and buffers that only misbehave after a long history.
func genBulk(c *hx.Ctx, o *hx.Outcome) []gnss.Segment {
	oneIn := 400
	if c.Thorough() {
		oneIn = 150
	}
	if !c.T.SBool(1, oneIn) {
		return nil
	}
	n := []int{300, 4200, 20000, 140000}[c.T.SW(4, 3, 2, 1)]
	o.Probe(fmt.Sprintf("bulk-stream-%d-segments", n))
	return gnss.GenBulk(c.T, n)
}

func sampleOf(segs []gnss.Segment, wire []byte, faults []gnss.LineFault, cfg pipeCfg) map[string]any {
	return map[string]any{"segments": gnss.Describe(segs), "wire_hex": hexShort(wire), "wire_len": len(wire), "line_faults": faults,
		"cap_in": cfg.capIn, "cap_out": cfg.capOut, "slow_producer": cfg.slowProd, "slow_consumer": cfg.slowCons, "close_after": cfg.closeAfter}
}

// ---- C01 -------------------------------------------------------------------------

// checkTyped is C01's invariant on a delivered message.
func checkTyped(m *rtcm.Message) string {
	if m.MessageType < 0 {
		return ""
	}
	if !gnss.IsValidFrame(m.RawData) {
		return fmt.Sprintf("typed message (type %d) whose raw bytes are not one CRC-valid frame: %s", m.MessageType, hexShort(m.RawData))
	}
	if len(m.RawData) >= 8 && gnss.TypeOf(m.RawData) != m.MessageType {
		return fmt.Sprintf("reported type %d but the first 12 payload bits say %d", m.MessageType, gnss.TypeOf(m.RawData))
	}
	return ""
}

func safeGetMessage(h *rtcm.Handler, b []byte) (m *rtcm.Message, err error, panicked string) {
	defer func() {
		if r := recover(); r != nil {
			panicked = fmt.Sprint(r)
		}
	}()
	m, err = h.GetMessage(b)
	return
}

// checkSingleFrame is the single-frame clause of C01 on one argument.
func checkSingleFrame(o *hx.Outcome, arg []byte) {
	h := rtcm.New(startTime, slog.LevelDebug)
	in := append([]byte(nil), arg...)
	m, err, pan := safeGetMessage(h, in)
	o.Probe("getmessage-calls")
	if pan != "" {
		o.Probe("getmessage-panic(C07)")
		return
	}
	if m == nil {
		return
	}
	if m.MessageType >= 0 && err == nil {
		o.Probe("getmessage-typed-ok")
		// The message handed back must itself be exactly one valid frame taken
		// from the front of the argument.  (A valid frame followed by zero bytes
		// is accepted by GetMessage and returned without the padding; the
		// returned message is a correct frame, so that is not a violation.)
		if !gnss.IsValidFrame(m.RawData) {
			o.Fail("C01/getmessage-typed-nonframe", "GetMessage returned type %d with no error and raw bytes that are not one valid frame: argument %s, raw %s", m.MessageType, hexShort(arg), hexShort(m.RawData))
		} else if len(m.RawData) > len(arg) || !bytes.Equal(m.RawData, arg[:len(m.RawData)]) {
			o.Fail("C01/getmessage-rawdata", "GetMessage raw data is not the leading frame of its argument")
		} else if len(m.RawData) >= 8 && m.MessageType != gnss.TypeOf(m.RawData) {
			o.Fail("C01/getmessage-type", "GetMessage type %d, frame says %d", m.MessageType, gnss.TypeOf(m.RawData))
		}
		if len(m.RawData) != len(arg) {
			o.Probe("getmessage-accepted-frame-plus-padding")
		}
	}
	if !bytes.Equal(in, arg) {
		o.Fail("C01/getmessage-mutates", "GetMessage modified its argument")
	}
}

func runC01(c *hx.Ctx) *hx.Outcome {
	o := &hx.Outcome{}
	segs, wire, faults := genNoisyStream(c, o)
	cfg := genPipeCfg(c.T, len(wire))
	o.ScenHash = gnss.Hash(wire)
	if c.Detail {
		o.Sample = sampleOf(segs, wire, faults, cfg)
	}
	pr := runPipe(c, wire, cfg, slog.LevelDebug, false)
	o.Verdict, o.Strategy = pr.verdict, pr.strategy
	typed := 0
	for i := range pr.msgs {
		m := &pr.msgs[i]
		if m.MessageType >= 0 {
			typed++
		}
		if em := checkTyped(m); em != "" {
			o.Fail("C01/typed-nonframe", "message %d: %s", i, em)
		}
	}
	o.ProbeN("typed-delivered", typed)
	o.ProbeN("nonrtcm-delivered", len(pr.msgs)-typed)
	if len(pr.panics) > 0 {
		o.Probe("panic-seen(not C01's business)")
	}
	// single-frame clause: every segment, variants, prefixes and extensions
	pos := 0
	for _, sg := range segs {
		checkSingleFrame(o, sg.Bytes)
		if sg.Kind == gnss.KindFrame {
			f := sg.Bytes
			for k := 1; k <= 3 && k < len(f); k++ {
				checkSingleFrame(o, f[:len(f)-k])
				checkSingleFrame(o, append(append([]byte{}, f...), wire[:min(k, len(wire))]...))
			}
			// one corrupted variant, biased to header/CRC bytes
			v := append([]byte{}, f...)
			idx := []int{0, 1, 2, 3, 4, len(f) - 3, len(f) - 2, len(f) - 1}[c.T.S(8)]
			v[idx] ^= 0x80 >> uint(c.T.S(8))
			checkSingleFrame(o, v)
			// zero-length and reserved-bit variants with consistent CRC
			checkSingleFrame(o, gnss.ByzantineFrame(c.T).Bytes)
			// the frame followed by arbitrary bytes, and very short buffers
			tailN := 1 + c.T.S(12)
			checkSingleFrame(o, append(append([]byte{}, f...), c.T.SBytes(tailN)...))
			checkSingleFrame(o, f[:1+c.T.S(min(6, len(f)))])
			// another frame directly behind it
			checkSingleFrame(o, append(append([]byte{}, f...), f...))
		}
		// the bytes as they appear on the wire after faults
		if pos < len(wire) {
			end := pos + len(sg.Bytes)
			if end > len(wire) {
				end = len(wire)
			}
			checkSingleFrame(o, wire[pos:end])
		}
		pos += len(sg.Bytes)
	}
	o.Nontrivial = len(pr.msgs) > 0 && len(wire) > 0
	return o
}

// ---- C02 -------------------------------------------------------------------------

func checkConservation(o *hx.Outcome, pr *pipeRun, want []byte, what string) {
	if len(pr.panics) > 0 {
		o.Fail("C02/panic", "%s: a goroutine panicked, the stream is lost: %s", what, firstLine(pr.panics[0]))
		return
	}
	for i, m := range pr.msgs {
		if len(m.RawData) == 0 {
			o.Fail("C02/empty-message", "%s: message %d is empty", what, i)
		}
	}
	got := concatRaw(pr.msgs)
	if d := firstDiff(got, want); d >= 0 {
		class := "C02/altered-bytes"
		if len(got) < len(want) && bytes.Equal(got, want[:len(got)]) {
			class = "C02/lost-tail"
		} else if len(got) < len(want) {
			class = "C02/lost-bytes"
		} else if len(got) > len(want) {
			class = "C02/extra-bytes"
		}
		o.Fail(class, "%s: delivered bytes differ from the input at offset %d (delivered %d bytes, input %d): got …%s want …%s", what, d, len(got), len(want),
			hexShort(got[max(0, d-4):]), hexShort(want[max(0, min(d, len(want))-4):]))
	}
	switch {
	case pr.verdict == rt.Budget:
		o.Fail("C02/hang", "%s: not finished within the step budget (%d steps)", what, pr.steps)
	case pr.closedSeen == 0:
		o.Fail("C02/not-closed", "%s: the output channel was not closed after the input ended (verdict %s, live goroutines %v)", what, pr.verdict, pr.live)
	case len(pr.live) > 0:
		o.Fail("C02/handler-stuck", "%s: goroutines still alive at quiescence: %v", what, pr.live)
	}
}

func firstLine(s string) string {
	for i, c := range s {
		if c == '\n' {
			return s[:i]
		}
	}
	return s
}

func runC02(c *hx.Ctx) *hx.Outcome {
	o := &hx.Outcome{}
	segs, wire, faults := genNoisyStream(c, o)
	cfg := genPipeCfg(c.T, len(wire))
	o.ScenHash = gnss.Hash(wire)
	if c.Detail {
		o.Sample = sampleOf(segs, wire, faults, cfg)
	}
	limit := 64
	if c.Thorough() {
		limit = 400
	}
	enumerate := len(wire) > 0 && len(wire) <= limit && c.T.SBool(1, 3)
	pr := runPipe(c, wire, cfg, slog.LevelDebug, false)
	o.Verdict, o.Strategy = pr.verdict, pr.strategy
	checkConservation(o, pr, wire, "whole stream")
	o.Nontrivial = len(pr.msgs) > 0
	if len(wire) == 0 {
		o.Probe("empty-stream")
	}
	if enumerate && o.Class == "" {
		// crash-point enumeration: close the input after every byte position
		o.Probe("crashpoint-enumerations")
		for k := 0; k < len(wire); k++ {
			cfg2 := cfg
			cfg2.closeAfter = k
			pr2 := runPipe(c, wire, cfg2, slog.LevelDebug, false)
			checkConservation(o, pr2, wire[:k], fmt.Sprintf("input closed after byte %d of %d", k, len(wire)))
			o.Probe("crashpoints")
			if o.Class != "" {
				if c.Detail {
					o.Sample.(map[string]any)["failing_close_after"] = k
				}
				break
			}
		}
		o.Fault("close-input-at-every-byte")
	}
	return o
}

// ---- C03 / C12 ---------------------------------------------------------------------

func genCleanStream(c *hx.Ctx, o *hx.Outcome, minFrames int) []gnss.Segment {
	opts := gnss.Opts{MaxSegs: 6, LongOneIn: 8, Tail: true, MinFrames: minFrames}
	if c.Thorough() {
		opts.MaxSegs, opts.LongOneIn = 14, 3
	}
	segs := gnss.GenStream(c.T, opts)
	if b := genBulk(c, o); b != nil && minFrames <= 1 {
		segs = b
	}
	for _, sg := range segs {
		if sg.Kind == gnss.KindFrame {
			l := len(sg.Bytes) - 6
			switch {
			case l == 1:
				o.Probe("len:1")
			case l <= 3:
				o.Probe("len:2-3")
			case l <= 9:
				o.Probe("len:4-9")
			case l <= 255:
				o.Probe("len:10-255")
			case l <= 1022:
				o.Probe("len:256-1022")
			default:
				o.Probe("len:1023")
			}
			n := len(sg.Bytes)
			for i := 1; i <= 3; i++ {
				if sg.Bytes[n-i] == 0xD3 {
					o.Probe(fmt.Sprintf("d3-in-crc-byte-%d", 4-i))
				}
			}
			if bytes.IndexByte(sg.Bytes[3:n-3], 0xD3) >= 0 {
				o.Probe("d3-in-payload")
			}
		}
		if sg.Kind == gnss.KindTail {
			o.Probe("truncated-tail")
		}
	}
	return segs
}

func compareExpected(o *hx.Outcome, prop string, pr *pipeRun, want []gnss.Expect) {
	if len(pr.panics) > 0 {
		o.Fail(prop+"/panic", "a goroutine panicked: %s", firstLine(pr.panics[0]))
		return
	}
	for i := 0; i < len(want) || i < len(pr.msgs); i++ {
		if i >= len(pr.msgs) {
			o.Fail(prop+"/missing-message", "segment %d (type %d, %d bytes) was not delivered (%d of %d delivered)", i, want[i].Type, len(want[i].Raw), len(pr.msgs), len(want))
			return
		}
		if i >= len(want) {
			o.Fail(prop+"/extra-message", "extra message %d: type %d %s", i, pr.msgs[i].MessageType, hexShort(pr.msgs[i].RawData))
			return
		}
		g, w := pr.msgs[i], want[i]
		if g.MessageType != w.Type || !bytes.Equal(g.RawData, w.Raw) {
			class := prop + "/wrong-segment"
			if w.Type >= 0 && g.MessageType < 0 {
				class = prop + "/frame-missed"
			}
			o.Fail(class, "message %d: got type %d %s, want type %d %s", i, g.MessageType, hexShort(g.RawData), w.Type, hexShort(w.Raw))
			return
		}
	}
	if pr.verdict == rt.Budget || pr.closedSeen == 0 {
		o.Fail(prop+"/not-finished", "verdict %s, closed seen %d", pr.verdict, pr.closedSeen)
	}
}

func runC03(c *hx.Ctx) *hx.Outcome {
	o := &hx.Outcome{}
	segs := genCleanStream(c, o, 0)
	wire := gnss.Concat(segs)
	cfg := genPipeCfg(c.T, len(wire))
	o.ScenHash = gnss.Hash(wire)
	if c.Detail {
		o.Sample = sampleOf(segs, wire, nil, cfg)
	}
	pr := runPipe(c, wire, cfg, slog.LevelDebug, false)
	o.Verdict, o.Strategy = pr.verdict, pr.strategy
	compareExpected(o, "C03", pr, gnss.Expected(segs))
	o.Nontrivial = len(pr.msgs) > 0
	// truncation of the last frame at every byte position (short last frames)
	if n := len(segs); n > 0 && segs[n-1].Kind == gnss.KindFrame && len(segs[n-1].Bytes) <= 48 && len(wire) <= 4096 && o.Class == "" && c.T.SBool(1, 3) {
		last := segs[n-1].Bytes
		o.Fault("truncate-last-frame-at-every-byte")
		for k := 1; k < len(last); k++ {
			s2 := append(append([]gnss.Segment{}, segs[:n-1]...), gnss.Segment{Kind: gnss.KindTail, Bytes: last[:k]})
			pr2 := runPipe(c, gnss.Concat(s2), cfg, slog.LevelDebug, false)
			compareExpected(o, "C03", pr2, gnss.Expected(s2))
			o.Probe("tail-truncations")
			if o.Class != "" {
				o.Msg = fmt.Sprintf("last frame cut to %d of %d bytes: %s", k, len(last), o.Msg)
				break
			}
		}
	}
	return o
}

func runC12(c *hx.Ctx) *hx.Outcome {
	o := &hx.Outcome{}
	t := c.T
	segs := genCleanStream(c, o, 1)
	var frames []int
	for i, sg := range segs {
		if sg.Kind == gnss.KindFrame {
			frames = append(frames, i)
		}
	}
	if len(frames) == 0 {
		o.Skip = "no frame"
		return o
	}
	vi := frames[t.S(len(frames))]
	switch {
	case vi == frames[0]:
		o.Probe("victim-first")
	case vi == frames[len(frames)-1]:
		o.Probe("victim-last")
	default:
		o.Probe("victim-middle")
	}
	orig := segs[vi].Bytes
	cfg := genPipeCfg(t, len(gnss.Concat(segs)))
	limit := 12
	if c.Thorough() {
		limit = 40
	}
	run := func(victim []byte, what string) bool {
		s2 := append([]gnss.Segment{}, segs...)
		s2[vi] = gnss.Segment{Kind: gnss.KindVictim, Bytes: victim, Type: segs[vi].Type}
		pr := runPipe(c, gnss.Concat(s2), cfg, slog.LevelDebug, false)
		o.Verdict, o.Strategy = pr.verdict, pr.strategy
		compareExpected(o, "C12", pr, gnss.Expected(s2))
		if len(pr.msgs) > 0 {
			o.Nontrivial = true
		}
		if o.Class != "" {
			o.Msg = what + ": " + o.Msg
			if c.Detail {
				o.Sample = sampleOf(s2, gnss.Concat(s2), nil, cfg)
			}
			return false
		}
		return true
	}
	if len(orig) <= limit && len(gnss.Concat(segs)) <= 4096 && t.SBool(1, 2) {
		// enumerate every single-bit flip in payload and CRC
		o.Fault("victim:every-single-bit-flip")
		for bit := 24; bit < len(orig)*8; bit++ {
			v := append([]byte{}, orig...)
			v[bit/8] ^= 0x80 >> uint(bit%8)
			o.Probe("victim-bitflips-enumerated")
			if !run(v, fmt.Sprintf("victim segment %d, bit %d flipped", vi, bit)) {
				break
			}
		}
		o.ScenHash = gnss.Hash(gnss.Concat(segs)) ^ 0xe
		if c.Detail && o.Sample == nil {
			o.Sample = sampleOf(segs, gnss.Concat(segs), nil, cfg)
		}
		return o
	}
	// sampled corruption confined to payload and CRC bytes
	v := append([]byte{}, orig...)
	kind := t.SW(3, 2, 2, 2)
	for tries := 0; ; tries++ {
		switch kind {
		case 0: // a few bit flips
			k := 1 + t.S(4)
			for i := 0; i < k; i++ {
				bit := 24 + t.S(len(v)*8-24)
				v[bit/8] ^= 0x80 >> uint(bit%8)
			}
		case 1: // burst
			start := 24 + t.S(len(v)*8-24)
			l := 2 + t.S(23)
			for b := start; b < start+l && b < len(v)*8; b++ {
				if b == start || t.S(2) == 0 {
					v[b/8] ^= 0x80 >> uint(b%8)
				}
			}
		case 2: // overwrite a byte with 0xD3
			i := 3 + t.S(len(v)-3)
			if v[i] == 0xD3 {
				v[i] = 0
			} else {
				v[i] = 0xD3
			}
			o.Probe("corruption-introduces-d3")
		default: // overwrite several bytes
			k := 1 + t.S(3)
			for i := 0; i < k; i++ {
				j := 3 + t.S(len(v)-3)
				v[j] = byte(t.S(256))
			}
		}
		if !gnss.IsValidFrame(v) && !bytes.Equal(v, orig) {
			break
		}
		if tries > 8 {
			v = append([]byte{}, orig...)
			v[len(v)-1] ^= 1
			break
		}
	}
	o.Fault([]string{"victim:bitflips", "victim:burst", "victim:d3-overwrite", "victim:overwrite"}[kind])
	o.ScenHash = gnss.Hash(gnss.Concat(segs)) ^ gnss.Hash(v)
	if run(v, fmt.Sprintf("victim segment %d", vi)) && c.Detail {
		s2 := append([]gnss.Segment{}, segs...)
		s2[vi] = gnss.Segment{Kind: gnss.KindVictim, Bytes: v, Type: segs[vi].Type}
		o.Sample = sampleOf(s2, gnss.Concat(s2), nil, cfg)
	}
	return o
}

// ---- C07 (library level): framing, decoding and display at both log levels ---------------

func runC07(c *hx.Ctx) *hx.Outcome {
	o := &hx.Outcome{}
	segs, wire := hostileStream(c, o)
	cfg := genPipeCfg(c.T, len(wire))
	o.ScenHash = gnss.Hash(wire)
	level := slog.LevelDebug
	if c.T.SBool(1, 2) {
		level = slog.LevelInfo
		o.Probe("log-level-info")
	} else {
		o.Probe("log-level-debug")
	}
	if c.Detail {
		o.Sample = sampleOf(segs, wire, nil, cfg)
	}
	pr := runPipe(c, wire, cfg, level, true)
	o.Verdict, o.Strategy = pr.verdict, pr.strategy
	if len(pr.panics) > 0 {
		o.Fail("C07/panic", "framing/decoding/display panicked: %s | wire %s", firstLine(pr.panics[0]), hexShort(wire))
		return o
	}
	if pr.verdict == rt.Budget || pr.closedSeen == 0 {
		o.Fail("C07/hang", "pipeline did not finish: verdict %s, %d steps, live %v", pr.verdict, pr.steps, pr.live)
	}
	// single-frame decoding of every segment, too — exactly, followed by other
	// bytes (a caller's buffer may run on past the frame), doubled, and cut short
	var bufs [][]byte
	for _, sg := range segs {
		f := sg.Bytes
		bufs = append(bufs, f)
		if sg.Kind == gnss.KindFrame && len(f) > 0 {
			bufs = append(bufs, append(append([]byte{}, f...), c.T.SBytes(1+c.T.S(16))...), append(append([]byte{}, f...), f...), f[:1+c.T.S(len(f))])
		}
	}
	for _, buf := range bufs {
		sg := gnss.Segment{Bytes: buf}
		h := rtcm.New(startTime, level)
		m, _, pan := safeGetMessage(h, append([]byte(nil), sg.Bytes...))
		if pan != "" {
			o.Fail("C07/panic", "GetMessage panicked: %s on %s", pan, hexShort(sg.Bytes))
		} else if m != nil {
			func() {
				defer func() {
					if r := recover(); r != nil {
						o.Fail("C07/panic", "String panicked: %v on %s", r, hexShort(sg.Bytes))
					}
				}()
				if len(m.String()) == 0 {
					o.Fail("C07/empty-display", "empty display text for %s", hexShort(sg.Bytes))
				}
			}()
		}
	}
	o.Nontrivial = len(pr.msgs) > 0
	return o
}
