package lib

import (
	"testing"

	"verif/vsim/hx"
)

var props = []*hx.Prop{
	{ID: "C01", Run: runC01},
	{ID: "C02", Run: runC02},
	{ID: "C03", Run: runC03},
	{ID: "C06", Run: gnssTime("C06", false)},
	{ID: "C07", Run: runC07},
	{ID: "C09", Run: runC09},
	{ID: "C12", Run: runC12},
	{ID: "C13", Run: runC13},
	{ID: "C15", Run: runC15},
	{ID: "C17", Run: gnssTime("C17", true)},
	{ID: "C18", Run: runC18},
}

func TestVsim(t *testing.T) {
	if DecodeOneMain() {
		return
	}
	hx.Main(t, props...)
}

func TestVsimRace(t *testing.T) { RaceLane(t) }
