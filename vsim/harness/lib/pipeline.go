package lib

import (
	"bytes"
	"fmt"
	"log/slog"
	"strings"
	"time"

	"github.com/goblimey/go-ntrip/apps/appcore"
	fh "github.com/goblimey/go-ntrip/file_handler"
	"github.com/goblimey/go-ntrip/jsonconfig"
	rtcm "github.com/goblimey/go-ntrip/rtcm/handler"
	"github.com/goblimey/go-ntrip/rtcm/pushback"
	"verif/vsim/env"
	"verif/vsim/gnss"
	"verif/vsim/hx"
	"verif/vsim/rt"
)

// sequentialRef frames the bytes with the repository's own code in one
// goroutine outside the scheduler: the differential reference for "the
// concurrent pipeline delivers what sequential framing produces".
func sequentialRef(data []byte) (out []rtcm.Message, panicked string) {
	defer func() {
		if r := recover(); r != nil {
			panicked = fmt.Sprint(r)
		}
	}()
	ch := make(chan byte, len(data)+1)
	for _, b := range data {
		ch <- b
	}
	close(ch)
	h := rtcm.New(startTime, slog.LevelDebug)
	pb := pushback.New(ch)
	for i := 0; i < len(data)+2; i++ {
		m, err := h.FetchNextMessageFrame(pb)
		if err != nil && err.Error() == "done" {
			return
		}
		if m == nil {
			panicked = "nil message without done"
			return
		}
		out = append(out, *m)
	}
	panicked = "sequential framing does not terminate"
	return
}

type consumer struct {
	ch    chan rtcm.Message
	desc  string
	slow  int
	stall time.Duration // simulated time the consumer takes per message
	got   []rtcm.Message
	raw   [][]byte // private copies of RawData at receipt
	close int
}

// ---- C09 -------------------------------------------------------------------------

func runC09(c *hx.Ctx) *hx.Outcome {
	o := &hx.Outcome{}
	t := c.T
	segs, wire, faults := genNoisyStream(c, o)
	o.ScenHash = gnss.Hash(wire)
	k := 1 + t.S(4)
	cons := make([]*consumer, k)
	nonNil := 0
	var descs []string
	for i := range cons {
		cs := &consumer{}
		switch t.SW(3, 3, 1) {
		case 0:
			cs.ch, cs.desc = make(chan rtcm.Message), "unbuffered"
		case 1:
			n := []int{1, 2, 16}[t.S(3)]
			cs.ch, cs.desc = make(chan rtcm.Message, n), fmt.Sprintf("buffered(%d)", n)
		default:
			cs.desc = "nil"
			o.Probe("nil-consumer")
		}
		if cs.ch != nil {
			nonNil++
			cs.slow = t.SW(5, 1, 1) * 4
			cs.stall = []time.Duration{0, time.Millisecond, 900 * time.Millisecond, 5 * time.Second, 10 * time.Minute}[t.SW(30, 4, 2, 2, 1)]
			if cs.stall > 0 {
				o.Fault("consumer:stalls-in-simulated-time")
			}
		}
		cons[i] = cs
		descs = append(descs, fmt.Sprintf("%s slow=%d stall=%v", cs.desc, cs.slow, cs.stall))
	}
	maxChunk := []int{1, 3, 64, 4096, 8096}[t.S(5)]
	// the reader may fail before the end: a fatal error, or (with the zero
	// tolerance most runs use) a premature EOF / timeout
	var readerFault []env.Interruption
	if len(wire) > 0 && t.SBool(1, 6) {
		in := env.Interruption{At: t.S(len(wire) + 1), Silence: -1}
		switch t.S(3) {
		case 0:
			in.Fatal = true
		case 1:
			in.Timeout = true
		}
		readerFault = append(readerFault, in)
		o.Fault("source:fails-before-the-end")
	}
	// the file handler's EOF tolerance: zero (a finite file) or not (a live
	// line: the terminal EOF is retried until the tolerance has passed)
	tolMs := []uint{0, 0, 0, 50, 2000}[t.S(5)]
	waitMs := []uint{0, 20}[t.S(2)]
	// a live line also goes quiet for a moment and resumes: end-of-file or
	// time-out results well within the tolerance, then more data ("however the
	// bytes are chunked in time")
	transient := false
	if tolMs > 0 && len(wire) > 0 && len(readerFault) == 0 && t.SBool(1, 2) {
		transient = true
		last := -1
		for i := 1 + t.S(3); i > 0; i-- {
			at := pickOffset(t, segs, len(wire))
			if at <= last {
				at = last + 1 + t.S(4)
			}
			if at >= len(wire) {
				break
			}
			last = at
			readerFault = append(readerFault, env.Interruption{At: at, Timeout: t.S(2) == 1, Mixed: t.S(4) == 0,
				Silence: time.Duration(t.S(int(tolMs/2)+1)) * time.Millisecond})
		}
		o.Fault("source:quiet-then-resumes-within-tolerance")
	}
	if c.Detail {
		o.Sample = map[string]any{"eof_tolerance_ms": tolMs, "eof_wait_ms": waitMs, "reader_fault": readerFault, "segments": gnss.Describe(segs), "wire_len": len(wire), "wire_hex": hexShort(wire), "line_faults": faults, "consumers": descs, "max_chunk": maxChunk}
	}
	s := c.NewSim()
	s.ChooseStrategy()
	s.SetStarveKey([]string{"consumer", "file_handler", "app_core", "handler.go"}[t.D(4)])
	fineGrained(c, s, o)
	if transient {
		// the handler measures the quiet period with its own clock: a handler frozen
		// for minutes would see a line that resumed in time as one that did not
		s.Freeze = false
	}
	s.Budget = 96*(len(wire)+16)*(1+nonNil/2) + 8192
	src := &env.Source{T: t, Data: wire, MaxChunk: maxChunk, ZeroReads: t.SBool(1, 4), DataWithErr: t.SBool(1, 3), Ints: readerFault, PauseOneIn: []int{0, 0, 0, 3, 40}[t.S(5)]}
	var moreSrc []*env.Source
	for i := t.SW(7, 2, 1); i > 0; i-- {
		segs2, w2, _ := genNoisyStream(c, o)
		ms := &env.Source{T: t, Data: w2, MaxChunk: maxChunk}
		if tolMs > 0 && len(w2) > 0 && t.SBool(1, 2) {
			// the later connection goes quiet for a moment too (the earlier one ended
			// with a silence beyond the tolerance: whatever the handler remembered
			// about that must not count against this one)
			last := -1
			for j := 1 + t.S(2); j > 0; j-- {
				at := pickOffset(t, segs2, len(w2))
				if at <= last {
					at = last + 1 + t.S(4)
				}
				if at >= len(w2) {
					break
				}
				last = at
				ms.Ints = append(ms.Ints, env.Interruption{At: at, Timeout: t.S(2) == 1, Mixed: t.S(4) == 0,
					Silence: time.Duration(t.S(int(tolMs/2)+1)) * time.Millisecond})
			}
			if len(ms.Ints) > 0 {
				o.Fault("source:later-input-quiet-then-resumes-within-tolerance")
				s.Freeze = false
			}
		}
		moreSrc = append(moreSrc, ms)
		o.Probe("further-input-through-the-same-appcore")
		s.Budget += 96 * (len(w2) + 16) * (1 + nonNil/2)
	}
	returned := false
	retCode := -1
	var liveAtEnd []string
	verdict := s.Run(func() {
		chans := make([]chan rtcm.Message, k)
		for i, cs := range cons {
			chans[i] = cs.ch
			if cs.ch == nil {
				continue
			}
			cs := cs
			rt.Go(fmt.Sprintf("consumer%d", i), func() {
				for {
					rt.Yield("consumer recv")
					m, ok := <-cs.ch
					rt.Yield("consumer recvd")
					if !ok {
						cs.close++
						return
					}
					s.Logf("consumer got type %d len %d", m.MessageType, len(m.RawData))
					rt.Progress()
					cs.got = append(cs.got, m)
					cs.raw = append(cs.raw, append([]byte(nil), m.RawData...))
					for j := 0; j < cs.slow; j++ {
						rt.Yield("consumer slow")
					}
					if cs.stall > 0 {
						time.Sleep(cs.stall)
						rt.Yield("consumer stalled")
					}
				}
			})
		}
		cfg := jsonconfig.Config{TimeoutOnEOFMilliSeconds: tolMs, WaitTimeOnEOFMilliseconds: waitMs}
		if cfg.TimeoutOnEOFMilliSeconds > 0 {
			o.Probe("nonzero-eof-tolerance")
		}
		ac := appcore.New(&cfg, chans)
		// (the source is handed over in the form the entry point asks for)
		raw := t.D(2) == 1
		if raw && takesPlainReader(ac.HandleMessagesUntilEOF, src) {
			o.Probe("source-handed-over-without-a-buffered-reader")
		}
		retCode = firstInt(callWithSource(ac.HandleMessagesUntilEOF, startTime, src, raw))
		// the production loop reconnects and processes the next input through the
		// SAME AppCore: further sources, one call each
		for _, more := range moreSrc {
			if retCode != 0 {
				break
			}
			s.Logf("next input through the same AppCore")
			retCode = firstInt(callWithSource(ac.HandleMessagesUntilEOF, startTime, more, raw))
		}
		returned = true
		s.Logf("entry point returned %d", retCode)
		for _, cs := range cons {
			if cs.ch != nil {
				rt.Yield("harness close")
				close(cs.ch)
				rt.Yield("harness closed")
			}
		}
	})
	liveAtEnd = s.Live()
	o.Verdict, o.Strategy = verdict, rt.StratNames[s.Strategy]
	o.SimTime = s.Elapsed()
	// the reference: sequential framing of the bytes the reader actually supplied
	want, refPanic := sequentialRef(src.Handed)
	if (len(readerFault) == 0 || transient) && len(src.Handed) != len(wire) && returned && len(s.Panics) == 0 {
		o.Fail("C09/source-not-exhausted", "the call returned after %d of %d bytes of the source were read", len(src.Handed), len(wire))
	}
	for _, more := range moreSrc {
		w2, p2 := sequentialRef(more.Handed)
		want = append(want, w2...)
		if refPanic == "" {
			refPanic = p2
		}
		if len(more.Handed) != len(more.Data) && returned && len(s.Panics) == 0 {
			o.Fail("C09/source-not-exhausted", "a later input through the same AppCore was read to %d of %d bytes", len(more.Handed), len(more.Data))
		}
	}
	o.ProbeN("source-reads", src.Reads)
	o.ProbeN("zero-length-reads", src.ZeroN)
	o.ProbeN("quiet-bursts-of-empty-reads", src.QuietBursts)
	o.ProbeN("data-returned-with-eof", src.DataErrs)
	if src.DataErrs > 0 {
		o.Fault("source:data-together-with-error")
	}
	if len(s.Panics) > 0 {
		cls := "C09/panic"
		if strings.Contains(s.PanicMsg[0], "close of closed channel") {
			cls = "C09/double-close"
		}
		o.Fail(cls, "a pipeline goroutine panicked: %s", firstLine(s.Panics[0]))
		return o
	}
	if refPanic != "" {
		o.Fail("C09/panic", "sequential framing of the same bytes panicked: %s", refPanic)
		return o
	}
	if !returned {
		o.Fail("C09/no-return", "HandleMessagesUntilEOF did not return after the source was exhausted (verdict %s, %d steps, live %v)", verdict, s.Steps, liveAtEnd)
		return o
	}
	if retCode != 0 {
		o.Fail("C09/return-code", "HandleMessagesUntilEOF returned %d", retCode)
	}
	for i, cs := range cons {
		if cs.ch == nil {
			continue
		}
		if len(cs.got) != len(want) {
			o.Fail("C09/sequence-length", "consumer %d (%s) received %d messages, sequential framing gives %d", i, cs.desc, len(cs.got), len(want))
			continue
		}
		for j := range want {
			if cs.got[j].MessageType != want[j].MessageType || !bytes.Equal(cs.raw[j], want[j].RawData) {
				o.Fail("C09/sequence-differs", "consumer %d message %d: got type %d %s, want type %d %s", i, j, cs.got[j].MessageType, hexShort(cs.raw[j]), want[j].MessageType, hexShort(want[j].RawData))
				break
			}
			if !bytes.Equal(cs.got[j].RawData, want[j].RawData) {
				o.Fail("C09/rawdata-damaged-later", "consumer %d message %d: raw bytes changed after delivery", i, j)
				break
			}
		}
	}
	if len(liveAtEnd) > 0 {
		o.Fail("C09/goroutine-leak", "helper goroutines still alive at quiescence: %v", liveAtEnd)
	}
	if verdict == rt.Budget {
		o.Fail("C09/hang", "step budget exhausted")
	}
	o.Nontrivial = len(want) > 0 && nonNil > 0
	return o
}

// ---- C13 -------------------------------------------------------------------------

func runC13(c *hx.Ctx) *hx.Outcome {
	o := &hx.Outcome{}
	t := c.T
	opts := gnss.Opts{MaxSegs: 5, LongOneIn: 10, MinFrames: 1, Tail: true}
	if c.Thorough() {
		opts.MaxSegs = 10
	}
	segs := gnss.GenStream(t, opts)
	if t.SBool(1, 12) {
		// a long stream, so that whole reader buffers (2048, 4096 bytes) fill up
		// before an interruption
		k := 3 + t.S(6)
		for i := 0; i < k; i++ {
			segs = append(segs, gnss.GenFrame(t, gnss.Opts{LongOneIn: 1}))
		}
		segs = append(segs, gnss.GenJunk(t))
		o.Probe("long-stream")
	}
	data := gnss.Concat(segs)
	tol := []uint{0, 1, 50, 1000, 60000}[t.S(5)]
	wait := []uint{0, 1, 20, 2000}[t.S(4)]
	cfg := jsonconfig.Config{TimeoutOnEOFMilliSeconds: tol, WaitTimeOnEOFMilliseconds: wait}
	tolD := time.Duration(tol) * time.Millisecond
	waitD := time.Duration(wait) * time.Millisecond

	// interruption script
	nInt := t.SW(2, 5, 3)
	var ints []env.Interruption
	mustStopAt := -1 // data offset at which the handler must stop (-1: end of data)
	var fatalErr bool
	lastAt := -1
	for i := 0; i < nInt && len(data) > 0; i++ {
		// position: biased to inside the leader / payload / CRC of a frame
		at := pickOffset(t, segs, len(data))
		if len(data) > 1024 && t.S(3) == 0 {
			// right after a full reader buffer
			at = 1024 * (1 + t.S(len(data)/1024))
			o.Probe("interruption-at-buffer-boundary")
		}
		if at <= lastAt {
			at = lastAt + 1 + t.S(4)
		}
		if at > len(data) {
			break
		}
		lastAt = at
		in := env.Interruption{At: at, Mixed: t.S(4) == 0}
		kind := t.SW(4, 4, 2, 1) // EOF-resume, timeout-resume, silence, fatal
		switch kind {
		case 0, 1:
			in.Timeout = kind == 1
			if tolD > 0 {
				in.Silence = time.Duration(t.S(int(tolD/time.Millisecond)+1)) * time.Millisecond
			}
			if in.Timeout {
				o.Fault("source:timeout-then-resume")
			} else {
				o.Fault("source:eof-then-resume")
			}
			if tolD == 0 {
				mustStopAt = at
			} else if t.S(5) == 0 {
				// the device goes quiet and then fails: another read error while the
				// handler is retrying.  It must stop there.
				in.ThenFatal = true
				fatalErr = true
				mustStopAt = at
				o.Fault("source:fatal-error-after-a-quiet-period")
			}
		case 2:
			in.Timeout = t.S(2) == 1
			in.Silence = -1
			mustStopAt = at
			o.Fault("source:silence-beyond-tolerance")
		case 3:
			in.Fatal = true
			fatalErr = true
			mustStopAt = at
			o.Fault("source:fatal-read-error")
		}
		ints = append(ints, in)
		if mustStopAt >= 0 {
			break
		}
	}
	wantData := data
	if mustStopAt >= 0 {
		wantData = data[:mustStopAt]
	}
	where := "between-frames"
	for _, in := range ints {
		pos := 0
		for _, sg := range segs {
			if in.At > pos && in.At < pos+len(sg.Bytes) && sg.Kind == gnss.KindFrame {
				switch {
				case in.At-pos < 3:
					where = "inside-leader"
				case in.At-pos >= len(sg.Bytes)-3:
					where = "inside-crc"
				default:
					where = "inside-payload"
				}
				o.Probe("interruption-" + where)
			}
			pos += len(sg.Bytes)
		}
	}
	o.ScenHash = gnss.Hash(data) ^ uint64(tol)<<8 ^ uint64(wait)<<24 ^ uint64(len(ints))<<40 ^ uint64(mustStopAt+1)<<44
	if c.Detail {
		o.Sample = map[string]any{"segments": gnss.Describe(segs), "data_len": len(data), "tolerance_ms": tol, "wait_ms": wait, "interruptions": ints, "must_stop_at": mustStopAt}
	}
	want, refPanic := sequentialRef(wantData)

	s := c.NewSim()
	s.ChooseStrategy()
	s.SetStarveKey([]string{"consumer", "handler.go", "file-handler"}[t.D(3)])
	fineGrained(c, s, o)
	// no stalled goroutines here: the handler measures the silence with its own
	// clock, so a handler frozen for minutes would see a source that resumed within
	// the tolerance as one that did not, and the oracle would encode timing
	s.Freeze = false
	// a handler may legitimately re-poll every WaitTimeOnEOF until the tolerance
	// has passed: allow for that many retries
	polls := 0
	if tol > 0 {
		polls = int(tol) / int(max(wait, 1))
		if polls > 70000 {
			polls = 70000
		}
	}
	s.Budget = 96*(len(data)+16) + 20000 + 12*polls // steps since the last byte was handed over
	src := &env.Source{T: t, Data: data, Ints: ints, MaxChunk: []int{1, 7, 64, 4096, 8192}[t.S(5)], DataWithErr: t.SBool(1, 3), ZeroReads: t.SBool(1, 4), PauseOneIn: []int{0, 0, 0, 3, 40}[t.S(5)]}
	// One run in four: the process has handled an earlier connection with the same
	// configuration object (the programs create a new file handler per connection
	// and hand each the one Config), and that connection ended the hard way.
	// Whatever was remembered about it must not count against the judged one.
	var earlier *env.Source
	if t.SBool(1, 4) {
		ed := gnss.Concat(gnss.GenStream(t, gnss.Opts{MaxSegs: 3, LongOneIn: 1 << 30}))
		earlier = &env.Source{T: t, Data: ed, MaxChunk: 64}
		switch t.S(3) {
		case 0:
			// the line went dead: end-of-file (or time-outs) for ever
			earlier.Ints = []env.Interruption{{At: t.S(len(ed) + 1), Timeout: t.S(2) == 1, Silence: -1}}
			o.Fault("earlier-connection:ended-in-silence-beyond-tolerance")
		case 1:
			earlier.Ints = []env.Interruption{{At: t.S(len(ed) + 1), Fatal: true}}
			o.Fault("earlier-connection:ended-in-a-fatal-read-error")
		default:
			if tolD > 0 && len(ed) > 0 {
				earlier.Ints = []env.Interruption{{At: t.S(len(ed)), Silence: time.Duration(t.S(int(tolD/time.Millisecond)+1)) * time.Millisecond}}
			}
			o.Fault("earlier-connection:ended-at-end-of-data")
		}
		s.Budget += 96*(len(ed)+16) + 12*polls
	}
	var got []rtcm.Message
	closed := 0
	returned := false
	var retErr error
	var stoppedAfter time.Duration
	verdict := s.Run(func() {
		if earlier != nil {
			ch0 := make(chan rtcm.Message)
			rt.Go("consumer-of-the-earlier-connection", func() {
				for {
					rt.Yield("consumer0 recv")
					_, ok := <-ch0
					rt.Yield("consumer0 recvd")
					if !ok {
						return
					}
					rt.Progress()
				}
			})
			h0 := fh.New(ch0, &cfg)
			callWithSource(h0.Handle, startTime, earlier, false)
			s.Logf("the earlier connection ended")
		}
		msgChan := make(chan rtcm.Message, []int{0, 1, 4}[t.S(3)])
		rt.Go("consumer", func() {
			for {
				rt.Yield("consumer recv")
				m, ok := <-msgChan
				rt.Yield("consumer recvd")
				if !ok {
					closed++
					return
				}
				s.Logf("consumer got type %d len %d", m.MessageType, len(m.RawData))
				rt.Progress()
				m.RawData = append([]byte(nil), m.RawData...)
				got = append(got, m)
			}
		})
		rt.Go("file-handler", func() {
			h := fh.New(msgChan, &cfg)
			raw := t.D(2) == 1
			if raw && takesPlainReader(h.Handle, src) {
				o.Probe("source-handed-over-without-a-buffered-reader")
			}
			retErr = firstErr(callWithSource(h.Handle, startTime, src, raw))
			returned = true
			stoppedAfter = s.Elapsed()
			s.Logf("Handle returned %v", retErr)
		})
	})
	o.Verdict, o.Strategy = verdict, rt.StratNames[s.Strategy]
	o.SimTime = s.Elapsed()
	o.ProbeN("eof-results", src.EOFs+src.EndEOFs)
	o.ProbeN("timeout-results", src.Timeouts)
	o.ProbeN("fatal-results", src.Fatals)
	if src.DataErrs > 0 {
		o.Fault("source:data-together-with-error")
	}
	_ = stoppedAfter
	_ = waitD
	if len(s.Panics) > 0 {
		o.Fail("C13/panic", "a goroutine panicked: %s", firstLine(s.Panics[0]))
		return o
	}
	if refPanic != "" {
		o.Fail("C13/panic", "sequential framing panicked: %s", refPanic)
		return o
	}
	// (a) exactly-once, in order: what was delivered is what the source handed over
	delivered := concatRaw(got)
	if d := firstDiff(delivered, src.Handed); d >= 0 {
		cls := "C13/lost-bytes"
		if len(delivered) > len(src.Handed) {
			cls = "C13/duplicated-bytes"
		} else if len(delivered) == len(src.Handed) {
			cls = "C13/altered-bytes"
		}
		o.Fail(cls, "delivered bytes differ from the bytes the source supplied at offset %d (delivered %d, supplied %d; interruptions %+v, tolerance %dms wait %dms)", d, len(delivered), len(src.Handed), ints, tol, wait)
	}
	// (b)/(c): stop or continue as the statement demands
	if !returned {
		o.Fail("C13/no-stop", "Handle did not return (verdict %s, %d steps, simulated %v): tolerance %dms wait %dms interruptions %+v", verdict, s.Steps, s.Elapsed(), tol, wait, ints)
		return o
	}
	// (Which error value Handle returns is not part of the statement - the
	// pipeline ignores it - so it is only recorded.)
	if retErr == nil {
		o.Probe("handle-returned-nil-error")
	}
	if fatalErr && retErr != nil && retErr != env.ErrFatal {
		o.Probe("handle-returned-a-different-error")
	}
	if len(src.Handed) != len(wantData) {
		if len(src.Handed) < len(wantData) {
			o.Fail("C13/stopped-early", "the handler stopped after %d of %d bytes although every interruption ended within the tolerance (tolerance %dms wait %dms interruptions %+v)", len(src.Handed), len(wantData), tol, wait, ints)
		} else {
			o.Fail("C13/read-on-after-stop", "the handler kept reading after a result that must stop it: the source handed over %d bytes, the stop was due after %d (tolerance %dms wait %dms interruptions %+v)", len(src.Handed), len(wantData), tol, wait, ints)
		}
	}
	if closed != 1 {
		o.Fail("C13/not-closed", "message channel closed %d times after Handle returned (live %v)", closed, s.Live())
	}
	if o.Class == "" {
		if len(got) != len(want) {
			o.Fail("C13/sequence-differs", "%d messages delivered, the uninterrupted stream gives %d", len(got), len(want))
		} else {
			for i := range want {
				if got[i].MessageType != want[i].MessageType || !bytes.Equal(got[i].RawData, want[i].RawData) {
					o.Fail("C13/sequence-differs", "message %d: got type %d %s, uninterrupted stream gives type %d %s", i, got[i].MessageType, hexShort(got[i].RawData), want[i].MessageType, hexShort(want[i].RawData))
					break
				}
			}
		}
	}
	if live := s.Live(); len(live) > 0 && o.Class == "" {
		o.Fail("C13/goroutine-leak", "goroutines alive at quiescence: %v", live)
	}
	o.Nontrivial = len(got) > 0 && len(ints) > 0
	if mustStopAt >= 0 {
		o.Probe("must-stop-runs")
	} else if len(ints) > 0 {
		o.Probe("survivable-runs")
	}
	_ = tolD
	return o
}

// pickOffset: offset biased to positions inside frames.
func pickOffset(t *rt.Tape, segs []gnss.Segment, total int) int {
	var offs []int
	pos := 0
	for _, sg := range segs {
		n := len(sg.Bytes)
		if sg.Kind == gnss.KindFrame {
			offs = append(offs, pos, pos+1, pos+2, pos+3, pos+n/2, pos+n-3, pos+n-2, pos+n-1, pos+n)
		}
		pos += n
	}
	if len(offs) > 0 && t.S(4) != 0 {
		return offs[t.S(len(offs))]
	}
	return t.S(total + 1)
}
