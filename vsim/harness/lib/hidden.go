package lib

import (
	"bufio"
	"bytes"
	"encoding/hex"
	"encoding/json"
	"fmt"
	"log/slog"
	"os"
	"os/exec"
	"reflect"
	"strconv"
	"strings"
	"sync"

	"github.com/goblimey/go-ntrip/apps/appcore"
	"github.com/goblimey/go-ntrip/jsonconfig"
	rtcm "github.com/goblimey/go-ntrip/rtcm/handler"
	"github.com/goblimey/go-ntrip/rtcm/testdata"
	"verif/vsim/env"
	"verif/vsim/gnss"
	"verif/vsim/hx"
	"verif/vsim/rt"
)

// C15: decoding and display are deterministic and free of hidden state.

var realFramesOnce sync.Once
var realFrames [][]byte

// repoFrames returns the valid frames found in the repository's own test data.
func repoFrames() [][]byte {
	realFramesOnce.Do(func() {
		for _, batch := range [][]byte{testdata.MessageBatchWithJunk, testdata.MessageBatch, testdata.MessageBatchWith1077, testdata.MessageFrameType1005,
			testdata.MessageFrameType1006, testdata.MessageFrameType1077, testdata.MessageFrameType1074_1, testdata.MessageFrameType1074_2, testdata.MessageFrame1077,
			testdata.GlonassMSM7WithIllegalDay, testdata.Fake1230, testdata.UnhandledMessageType1024} {
			msgs, pan := sequentialRef(batch)
			if pan != "" {
				continue
			}
			for _, m := range msgs {
				if m.MessageType >= 0 && gnss.IsValidFrame(m.RawData) {
					realFrames = append(realFrames, append([]byte(nil), m.RawData...))
				}
			}
		}
	})
	return realFrames
}

// displayOf renders the message and removes the two MSM time lines, which by
// design follow the handler's time history.  The lines are recognised by their
// content (the message's own SentAt and StartOfWeek strings), not their wording.
func displayOf(m *rtcm.Message) string {
	return stripTimeLines(m.String(), m.SentAt, m.StartOfWeek)
}

func stripTimeLines(s string, timeLines ...string) string {
	lines := strings.Split(s, "\n")
	out := lines[:0]
	for _, l := range lines {
		skip := false
		for _, tl := range timeLines {
			if tl != "" && l == tl {
				skip = true
			}
		}
		if skip {
			continue
		}
		out = append(out, l)
	}
	return strings.Join(out, "\n")
}

type baseline struct {
	frame    []byte
	typ      int
	text     string
	fields   string
	panicked string
}

// decodeHere decodes the frame with a fresh handler in THIS process.
func decodeHere(frame []byte, level slog.Level) (b baseline, panicked string) {
	defer func() {
		if r := recover(); r != nil {
			panicked = fmt.Sprint(r)
		}
	}()
	h := rtcm.New(startTime, level)
	m, _ := h.GetMessage(append([]byte(nil), frame...))
	b.frame = frame
	b.typ = m.MessageType
	b.text = displayOf(m)
	b.fields = fieldsOf(m.Readable)
	return
}

// fieldsOf renders the exported fields of the decoded message.
func fieldsOf(readable interface{}) string {
	j, err := json.Marshal(readable)
	if err != nil {
		return fmt.Sprintf("%T %+v", readable, readable)
	}
	return fmt.Sprintf("%T %s", readable, j)
}

type decodeReply struct {
	Type     int    `json:"type"`
	Text     string `json:"text"`
	Fields   string `json:"fields"`
	Panicked string `json:"panicked"`
}

// DecodeOneMain is the body of the subprocess that decodes exactly one frame in
// a fresh process (env VSIM_DECODE_ONE=<hex>, VSIM_DECODE_LEVEL=<n>).
func DecodeOneMain() bool {
	hx := os.Getenv("VSIM_DECODE_ONE")
	if hx == "" {
		return false
	}
	frame, err := hex.DecodeString(hx)
	if err != nil {
		os.Exit(2)
	}
	lv, _ := strconv.Atoi(os.Getenv("VSIM_DECODE_LEVEL"))
	b, pan := decodeHere(frame, slog.Level(lv))
	out, _ := json.Marshal(decodeReply{Type: b.typ, Text: b.text, Fields: b.fields, Panicked: pan})
	fmt.Printf("\nVSIMDEC:%s\n", out)
	return true
}

var baseMu sync.Mutex
var baseCache = map[string]baseline{}
var baseSpawns int

// decodeAlone returns the decode of the frame alone, first, by a fresh handler
// in a FRESH PROCESS: the ground truth that no hidden state of this process
// (package-level caches, reused buffers) can have touched.  Results are cached:
// they are a pure function of (frame, level).
func decodeAlone(frame []byte, level slog.Level) (b baseline, panicked string) {
	key := fmt.Sprintf("%d|%x", level, frame)
	baseMu.Lock()
	if c, ok := baseCache[key]; ok {
		baseMu.Unlock()
		return c, c.panicked
	}
	baseMu.Unlock()
	rt.GlobalSteps.Add(1) // a fresh-process decode is progress, not a stall
	cmd := exec.Command(os.Args[0], "-test.run", "^TestVsim$", "-test.count", "1")
	cmd.Env = append(os.Environ(), "VSIM_DECODE_ONE="+hex.EncodeToString(frame), "VSIM_DECODE_LEVEL="+strconv.Itoa(int(level)))
	out, err := cmd.Output()
	var rep decodeReply
	ok := false
	for _, line := range strings.Split(string(out), "\n") {
		if strings.HasPrefix(line, "VSIMDEC:") {
			ok = json.Unmarshal([]byte(strings.TrimPrefix(line, "VSIMDEC:")), &rep) == nil
		}
	}
	if !ok {
		// infrastructure trouble, not a verdict
		panic(fmt.Sprintf("vsim: fresh-process decode failed: %v: %s", err, clip(string(out), 400)))
	}
	b = baseline{frame: frame, typ: rep.Type, text: rep.Text, fields: rep.Fields, panicked: rep.Panicked}
	baseMu.Lock()
	if len(baseCache) > 20000 {
		baseCache = map[string]baseline{}
	}
	baseCache[key] = b
	baseSpawns++
	baseMu.Unlock()
	return b, rep.Panicked
}

func isMSMType(t int) bool {
	for _, x := range gnss.MSMTypes {
		if x == t {
			return true
		}
	}
	return false
}

func runC15(c *hx.Ctx) *hx.Outcome {
	o := &hx.Outcome{}
	t := c.T
	level := slog.LevelDebug
	if t.SBool(1, 3) {
		level = slog.LevelInfo
	}
	appcoreMode := t.SW(3, 2) == 1
	if appcoreMode {
		level = slog.LevelDebug // the file handler creates its RTCM handler at Debug level
	}
	// the pool of frames
	nf := 1 + t.S(5)
	var pool [][]byte
	for i := 0; i < nf; i++ {
		switch t.SW(4, 3, 1, 1) {
		case 0:
			pool = append(pool, gnss.GenDecodableFrame(t).Bytes)
			o.Probe("frame:wellformed")
		case 1:
			rf := repoFrames()
			if len(rf) > 0 {
				pool = append(pool, rf[t.S(len(rf))])
				o.Probe("frame:repository-testdata")
			} else {
				pool = append(pool, gnss.GenDecodableFrame(t).Bytes)
			}
		case 2:
			pool = append(pool, gnss.GenHostileFrame(t).Bytes)
			o.Probe("frame:hostile")
		default:
			pool = append(pool, gnss.GenFrame(t, gnss.Opts{LongOneIn: 8}).Bytes)
			o.Probe("frame:other-type")
		}
	}
	// siblings: "the next message from the same receiver" - nearly the same frame
	// (same masks and other values, one signal or satellite more or less, only the
	// antenna height different, the neighbouring type number ...)
	if t.SBool(1, 2) {
		for i := 1 + t.S(3); i > 0; i-- {
			sg, kind := gnss.SiblingFrame(t, pool[t.S(len(pool))])
			if kind != "" {
				pool = append(pool, sg.Bytes)
				o.Probe("frame:sibling")
				o.Probe("sibling:" + kind)
			}
		}
	}
	// a twin: a different frame of the same type with the same CRC
	if t.SBool(1, 4) {
		if tw := gnss.Twin(t, pool[t.S(len(pool))]); tw != nil {
			pool = append(pool, tw)
			o.Probe("frame:crc-twin")
		}
	}
	bases := make([]baseline, len(pool))
	for i, f := range pool {
		b, pan := decodeAlone(f, level)
		if pan != "" {
			o.Fail("C15/panic", "decoding %s alone in a fresh process panicked: %s", hexShort(f), pan)
			return o
		}
		bases[i] = b
	}
	orig := make([][]byte, len(pool))
	shared := make([][]byte, len(pool))
	for i, f := range pool {
		orig[i] = append([]byte(nil), f...)
		shared[i] = append([]byte(nil), f...)
	}
	var h uint64
	for _, f := range pool {
		h = h*1099511628211 ^ gnss.Hash(f)
	}
	o.ScenHash = h
	fail := func(class, format string, a ...interface{}) { o.Fail(class, format, a...) }
	// check is run by displayers on their own copy of a message
	check := func(who string, m rtcm.Message, fi int, repeats int, vandal bool) {
		rt.Progress()
		b := bases[fi]
		first := ""
		for r := 0; r < repeats; r++ {
			txt := m.String()
			if r == 0 {
				first = txt
				if got := stripTimeLines(txt, m.SentAt, m.StartOfWeek); got != b.text {
					fail("C15/text-differs", "%s: text of frame %d (type %d) differs from its decode alone by a fresh handler:\n--- alone\n%s\n--- here\n%s", who, fi, b.typ, clip(b.text, 600), clip(got, 600))
				}
			} else if txt != first {
				fail("C15/repeat-differs", "%s: display %d of the same message differs from the first", who, r+1)
			}
		}
		if got := fieldsOf(m.Readable); got != b.fields {
			fail("C15/fields-differ", "%s: decoded fields of frame %d (type %d) differ from its decode alone in a fresh process:\n--- alone\n%s\n--- here\n%s", who, fi, b.typ, clip(b.fields, 500), clip(got, 500))
		}
		if !bytes.Equal(m.RawData, orig[fi]) {
			fail("C15/rawdata-modified", "%s: raw bytes of frame %d changed", who, fi)
		}
		if vandal {
			// what one consumer does with its copy must not reach another's
			// (including the decoded structure its copy points to)
			if rv := reflect.ValueOf(m.Readable); rv.Kind() == reflect.Ptr && !rv.IsNil() && rv.Elem().CanSet() {
				rv.Elem().Set(reflect.Zero(rv.Elem().Type()))
			}
			m.ErrorMessage = "overwritten by a consumer"
			m.Readable = "overwritten by a consumer"
			m.MessageType = 4095
			_ = m.String()
		}
	}
	if !appcoreMode && t.SBool(1, 6) {
		// a long history through ONE handler (hundreds of frames, many week
		// rollovers of the MSM time state), then every pool frame is displayed:
		// "processed first or after any other frames"
		o.Probe("mode:long-history")
		h := rtcm.New(startTime, level)
		n := 150 + t.S(1400)
		var pan string
		finished := false
		// (from a scheduled goroutine: should the code under test leave a lock of its
		// own locked, the run ends as a deadlock verdict instead of a blocked worker)
		hs := c.NewSim()
		hv := hs.Run(func() {
			defer func() {
				if r := recover(); r != nil {
					pan = fmt.Sprint(r)
				}
			}()
			for i := 0; i < n; i++ {
				h.GetMessage(shared[t.S(len(pool))])
				if i%64 == 0 {
					rt.Progress()
				}
			}
			for fi := range pool {
				m, _ := h.GetMessage(shared[fi])
				if m != nil {
					check(fmt.Sprintf("after a history of %d frames through one handler, frame %d", n, fi), *m, fi, 2, false)
				}
			}
			finished = true
		})
		if pan != "" {
			o.Fail("C15/panic", "after a history of %d frames: %s", n, pan)
		} else if !finished {
			o.Fail("C15/hang", "decoding and displaying a history of %d frames through one handler did not finish (verdict %s): a lock never released?", n, hv)
		}
		if c.Detail {
			o.Sample = map[string]interface{}{"mode": "long history through one handler", "history_length": n, "frames": len(pool), "log_level": level.String()}
		}
		o.Nontrivial = true
		o.ScenHash ^= uint64(n) << 32
		return o
	}
	s := c.NewSim()
	s.ChooseStrategy()
	s.EnableFn(rt.PkgHandler, rt.PkgHeader, rt.PkgDecoders)
	s.Budget = 400000
	var desc map[string]interface{}
	if appcoreMode {
		o.Probe("mode:appcore-fanout")
		// a stream of frames from the pool, fanned out by appcore to displayer consumers
		n := 1 + t.S(6)
		var seq []int
		var wire []byte
		for i := 0; i < n; i++ {
			k := t.S(len(pool))
			seq = append(seq, k)
			wire = append(wire, pool[k]...)
		}
		k := 1 + t.S(4)
		got := make([]int, k)
		src := &env.Source{T: t, Data: wire, MaxChunk: 4096}
		desc = map[string]interface{}{"mode": "appcore fan-out", "frame_sequence": seq, "consumers": k}
		verdict := s.Run(func() {
			chans := make([]chan rtcm.Message, k)
			for i := range chans {
				chans[i] = make(chan rtcm.Message, t.S(3))
				i := i
				vandal := t.S(3) == 0
				reps := 1 + t.S(3)
				rt.Go(fmt.Sprintf("displayer%d", i), func() {
					for {
						rt.Yield("displayer recv")
						m, ok := <-chans[i]
						rt.Yield("displayer recvd")
						if !ok {
							return
						}
						if got[i] < len(seq) {
							check(fmt.Sprintf("consumer %d message %d", i, got[i]), m, seq[got[i]], reps, vandal)
						}
						got[i]++
					}
				})
			}
			var cfg jsonconfig.Config
			appcore.New(&cfg, chans).HandleMessagesUntilEOF(startTime, bufio.NewReader(src))
			for _, ch := range chans {
				rt.Yield("harness close")
				close(ch)
				rt.Yield("harness closed")
			}
		})
		o.Verdict = verdict
		if len(s.Panics) == 0 {
			for i := range got {
				if got[i] != len(seq) {
					fail("C15/stream", "consumer %d received %d of %d messages (verdict %s)", i, got[i], len(seq), verdict)
				}
			}
		}
	} else {
		o.Probe("mode:handlers+displayers")
		nh := 1 + t.S(4)
		desc = map[string]interface{}{"mode": "handlers and displayers on shared frames", "handlers": nh}
		done := 0
		verdict := s.Run(func() {
			for hi := 0; hi < nh; hi++ {
				hi := hi
				n := 1 + t.S(6)
				seq := make([]int, n)
				for i := range seq {
					seq[i] = t.S(len(pool))
				}
				nd := 1 + t.S(4)
				rt.Go(fmt.Sprintf("handler%d", hi), func() {
					h := rtcm.New(startTime, level)
					for mi, fi := range seq {
						rt.Yield("handler next frame")
						// all handlers decode the same shared byte slices
						m, _ := h.GetMessage(shared[fi])
						if m == nil {
							fail("C15/stream", "GetMessage returned nil for a valid frame")
							continue
						}
						if m.MessageType != bases[fi].typ {
							fail("C15/type-differs", "handler %d: frame %d decoded as type %d, alone as %d", hi, fi, m.MessageType, bases[fi].typ)
						}
						for d := 0; d < nd; d++ {
							d := d
							cp := *m // each displayer gets its own Message value (RawData shared)
							vandal := (d+mi)%3 == 2
							reps := 1 + (d+mi+hi)%3
							fi := fi
							rt.Go(fmt.Sprintf("displayer%d", d), func() {
								check(fmt.Sprintf("handler %d message %d displayer %d", hi, mi, d), cp, fi, reps, vandal)
							})
						}
					}
					done++
				})
			}
		})
		o.Verdict = verdict
		if len(s.Panics) == 0 && done != nh {
			fail("C15/stream", "%d of %d handlers finished (verdict %s)", done, nh, verdict)
		}
	}
	o.Strategy = rt.StratNames[s.Strategy]
	if c.Detail {
		var fr []string
		for i, f := range pool {
			fr = append(fr, fmt.Sprintf("frame %d: type %d, %d bytes, %s", i, bases[i].typ, len(f), hexShort(f)))
		}
		desc["frames"] = fr
		desc["log_level"] = level.String()
		o.Sample = desc
	}
	if len(s.Panics) > 0 {
		o.Fail("C15/panic", "%s", firstLine(s.Panics[0]))
		return o
	}
	for i := range shared {
		if !bytes.Equal(shared[i], orig[i]) {
			o.Fail("C15/rawdata-modified", "frame %d was modified in place", i)
		}
	}
	o.Nontrivial = s.Switches > 1
	return o
}

func clip(s string, n int) string {
	if len(s) <= n {
		return s
	}
	return s[:n] + "…"
}
