package main

// In-package vsim harness for rtcmlogger (mapped into apps/rtcmlogger by the
// build overlay; never written to /repo).

import (
	"testing"

	"verif/vsim/harness/lib"
	"verif/vsim/hx"
)

func TestVsim(t *testing.T) {
	hx.Main(t, &hx.Prop{ID: "C16", Run: lib.C16(start)})
}
