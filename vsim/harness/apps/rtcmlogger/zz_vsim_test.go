package main

// In-package vsim harness for rtcmlogger (mapped into apps/rtcmlogger by the
// build overlay; never written to /repo).

import (
	"testing"

	"github.com/goblimey/go-ntrip/apps/rtcmlogger/config"

	"verif/vsim/harness/lib"
	"verif/vsim/hx"
)

func TestVsim(t *testing.T) {
	hx.Main(t, &hx.Prop{ID: "C16", Run: lib.C16(func(cfg *config.Config) {
		vsimReset() // a run is a process: the reporting flags start as the program declares them
		start(cfg)
	})})
}
