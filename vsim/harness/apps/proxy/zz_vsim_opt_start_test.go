package main

// Listener mode of the C19 harness: the proxy's real start() — channels, parser,
// queue updater, status reporter, accept loop, one upstream call per client —
// runs over the simulated network of the rt seam (net.Listen, net.Dial and the
// HTTP service registration are redirected by the build overlay).  Kept in a
// file of its own: if a changed start() no longer fits these few lines the
// build drops this file and C19 runs in direct mode only.

import (
	"io"
	"log/slog"

	"github.com/goblimey/go-tools/dailylogger"
	"verif/vsim/harness/lib"
)

func init() {
	vsimStartHooks = &lib.ProxyStartHooks{
		NetSeam: vsimNetSeam,
		Configure: func(proxyHost string, proxyPort int, remote, controlHost string, controlPort int, logDir string) {
			slog.SetDefault(slog.New(slog.NewTextHandler(io.Discard, nil)))
			config = Config{ProxyHost: proxyHost, ProxyPort: proxyPort, RemoteHost: remote, ControlHost: controlHost, ControlPort: controlPort, TLS: &TLS{},
				RecordMessages: true, MessageLogDirectory: logDir}
			// main() creates the message log before it calls start()
			rtcmLog = dailylogger.New(logDir, "data.", ".rtcm")
		},
		Start: func() { start(false) },
	}
}
