package main

// Direct mode of the C19 harness: the harness performs the same wiring as
// start() and runs the real handleMessages over one pair of simulated
// connections.  Optional: dropped by the build when a changed program no longer
// has these package variables or this signature.

import (
	"io"
	"log/slog"
	"net"
	"time"

	circularQueue "github.com/goblimey/go-ntrip/apps/proxy/circular_queue"
	reportfeed "github.com/goblimey/go-ntrip/apps/proxy/reportfeed"
	rtcm "github.com/goblimey/go-ntrip/rtcm/handler"
	"github.com/goblimey/go-tools/dailylogger"
	"verif/vsim/harness/lib"
	vsimrt "verif/vsim/rt"
)

func vsimSetup(logDir string) {
	slog.SetDefault(slog.New(slog.NewTextHandler(io.Discard, nil)))
	// the wiring of start(), with gated goroutines
	byteChan = make(chan byte)
	messageChan = make(chan rtcm.Message)
	rtcmHandler = rtcm.New(time.Now(), slog.LevelInfo)
	vsimrt.Go("proxy-parser", func() { rtcmHandler.HandleMessages(byteChan, messageChan) })
	recentMessages = circularQueue.NewCircularQueue(maxNumberOfMessagesStored)
	vsimrt.Go("proxy-queue-updater", func() { keepCircularQueueUpdated(messageChan, recentMessages) })
	rtcmLog = dailylogger.New(logDir, "data.", ".rtcm")
	SetReportFeed(reportfeed.New(rtcmLog, recentMessages))
}

func init() {
	vsimDirectHooks = &lib.ProxyDirectHooks{
		Setup:  vsimSetup,
		Handle: func(server, client net.Conn) { handleMessages(server, client, false, 1) },
	}
}
