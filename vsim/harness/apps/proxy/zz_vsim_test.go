package main

// In-package vsim harness for the proxy (mapped into apps/proxy by the build
// overlay; never written to /repo).  TLS is not executed.  Two optional files
// provide the two ways of running a session: zz_vsim_opt_start_test.go (the
// program's real start() over the simulated network) and
// zz_vsim_opt_direct_test.go (the wiring of start() done by the harness, the
// real handleMessages over one pair of simulated connections).  A file that no
// longer compiles against a changed program is dropped by the build; this core
// file needs only the report feed, the queue and the message log.

import (
	"testing"

	circularQueue "github.com/goblimey/go-ntrip/apps/proxy/circular_queue"
	reportfeed "github.com/goblimey/go-ntrip/apps/proxy/reportfeed"
	"verif/vsim/harness/lib"
	"verif/vsim/hx"
)

// set by the optional files when they are part of the build
var vsimStartHooks *lib.ProxyStartHooks
var vsimDirectHooks *lib.ProxyDirectHooks

func vsimQueueRaw() [][]byte {
	var out [][]byte
	for _, m := range recentMessages.GetMessages() {
		out = append(out, m.RawData)
	}
	return out
}

func TestVsim(t *testing.T) {
	hooks := lib.ProxyHooks{
		Status: func() []byte { return reportFeed.Status() },
		EmptyStatus: func() []byte {
			return reportfeed.New(rtcmLog, circularQueue.NewCircularQueue(maxNumberOfMessagesStored)).Status()
		},
		QueueRaw: vsimQueueRaw,
		QueueCap: maxNumberOfMessagesStored,
		Reset:    vsimReset,
		Listener: vsimStartHooks,
		Direct:   vsimDirectHooks,
	}
	hx.Main(t, &hx.Prop{ID: "C19", Run: lib.C19(hooks)})
}
