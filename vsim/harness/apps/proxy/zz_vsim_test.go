package main

// In-package vsim harness for the proxy (mapped into apps/proxy by the build
// overlay; never written to /repo).  TCP, TLS and the HTTP status server are
// not executed: the harness performs the same wiring as start() and runs the
// real handleMessages over simulated connections.

import (
	"io"
	"log/slog"
	"net"
	"testing"
	"time"

	circularQueue "github.com/goblimey/go-ntrip/apps/proxy/circular_queue"
	reportfeed "github.com/goblimey/go-ntrip/apps/proxy/reportfeed"
	rtcm "github.com/goblimey/go-ntrip/rtcm/handler"
	"github.com/goblimey/go-tools/dailylogger"
	"verif/vsim/harness/lib"
	"verif/vsim/hx"
	vsimrt "verif/vsim/rt"
)

func vsimSetup(logDir string) {
	slog.SetDefault(slog.New(slog.NewTextHandler(io.Discard, nil)))
	// the wiring of start(), with gated goroutines
	byteChan = make(chan byte)
	messageChan = make(chan rtcm.Message)
	rtcmHandler = rtcm.New(time.Now(), slog.LevelInfo)
	vsimrt.Go("proxy-parser", func() { rtcmHandler.HandleMessages(byteChan, messageChan) })
	recentMessages = circularQueue.NewCircularQueue(maxNumberOfMessagesStored)
	vsimrt.Go("proxy-queue-updater", func() { keepCircularQueueUpdated(messageChan, recentMessages) })
	rtcmLog = dailylogger.New(logDir, "data.", ".rtcm")
	SetReportFeed(reportfeed.New(rtcmLog, recentMessages))
}

func vsimQueueRaw() [][]byte {
	var out [][]byte
	for _, m := range recentMessages.GetMessages() {
		out = append(out, m.RawData)
	}
	return out
}

func TestVsim(t *testing.T) {
	hooks := lib.ProxyHooks{
		Setup:  vsimSetup,
		Handle: func(server, client net.Conn) { handleMessages(server, client, false, 1) },
		Status: func() []byte { return reportFeed.Status() },
		EmptyStatus: func() []byte {
			return reportfeed.New(rtcmLog, circularQueue.NewCircularQueue(maxNumberOfMessagesStored)).Status()
		},
		QueueRaw: vsimQueueRaw,
		QueueCap: maxNumberOfMessagesStored,
	}
	hx.Main(t, &hx.Prop{ID: "C19", Run: lib.C19(hooks)})
}
