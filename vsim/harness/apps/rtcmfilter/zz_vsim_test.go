package main

// In-package vsim harness for rtcmfilter (mapped into apps/rtcmfilter by the
// build overlay; never written to /repo).

import (
	"testing"

	"verif/vsim/harness/lib"
	"verif/vsim/hx"
)

func TestVsim(t *testing.T) {
	hx.Main(t,
		&hx.Prop{ID: "C10", Run: lib.C10(HandleMessages)},
		&hx.Prop{ID: "C11", Run: lib.C11("rtcmfilter", HandleMessages, false)},
	)
}
