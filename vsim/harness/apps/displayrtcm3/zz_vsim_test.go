package main

// In-package vsim harness for displayrtcm3 (mapped into apps/displayrtcm3 by
// the build overlay; never written to /repo).

import (
	"testing"

	"verif/vsim/harness/lib"
	"verif/vsim/hx"
)

func TestVsim(t *testing.T) {
	hx.Main(t,
		&hx.Prop{ID: "C11", Run: lib.C11("displayrtcm3", HandleMessages, true)},
		&hx.Prop{ID: "C07", Run: lib.C07App("displayrtcm3", HandleMessages)},
	)
}
