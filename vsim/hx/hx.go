// Package hx is the worker-side framework shared by all vsim harnesses: it
// turns a property's Run function into an explore / replay / minimise worker
// driven by environment variables set by vcheck.
package hx

import (
	"encoding/binary"
	"encoding/json"
	"fmt"
	"hash/fnv"
	"os"
	"os/exec"
	"path/filepath"
	"runtime"
	"runtime/debug"
	"sort"
	"strconv"
	"strings"
	"sync/atomic"
	"testing"
	"testing/synctest"
	"time"

	"verif/vsim/rt"
)

// Outcome is what one simulated run reports.
type Outcome struct {
	Class      string         `json:"class,omitempty"` // "" = property held; else violation class "Cxx/what"
	Msg        string         `json:"msg,omitempty"`
	Skip       string         `json:"skip,omitempty"`  // non-empty: generator precondition not met; run not counted
	Infra      string         `json:"infra,omitempty"` // non-empty: harness/generator trouble (exit 2)
	Nontrivial bool           `json:"nontrivial"`
	ScenHash   uint64         `json:"scen_hash"`
	Probes     map[string]int `json:"probes,omitempty"`
	Faults     map[string]int `json:"faults,omitempty"`
	Sample     any            `json:"sample,omitempty"`
	SimTime    time.Duration  `json:"sim_time_ns"`
	GNSSWeeks  float64        `json:"gnss_weeks,omitempty"`
	Strategy   string         `json:"strategy,omitempty"`
	// filled by the framework
	Steps     int    `json:"steps"`
	Switches  int    `json:"switches"`
	EventHash uint64 `json:"event_hash"`
	Verdict   string `json:"verdict,omitempty"`
}

func (o *Outcome) Probe(name string) {
	if o.Probes == nil {
		o.Probes = map[string]int{}
	}
	o.Probes[name]++
}
func (o *Outcome) ProbeN(name string, n int) {
	if n == 0 {
		return
	}
	if o.Probes == nil {
		o.Probes = map[string]int{}
	}
	o.Probes[name] += n
}
func (o *Outcome) Fault(name string) {
	if o.Faults == nil {
		o.Faults = map[string]int{}
	}
	o.Faults[name]++
}
func (o *Outcome) Fail(class, format string, a ...any) {
	if o.Class == "" {
		o.Class = class
		o.Msg = fmt.Sprintf(format, a...)
	}
}

// Ctx is handed to a property's Run function, which executes on the root
// goroutine of a fresh synctest bubble.
type Ctx struct {
	T      *rt.Tape
	Tier   string // "quick" | "thorough"
	Detail bool   // collect samples and traces (replay, sample runs)
	tmp    string
	sims   []*rt.Sim
	RunIdx uint64
}

func (c *Ctx) Thorough() bool { return c.Tier == "thorough" }

// NewSim creates the scheduler for this run (a run may use several, one after
// the other).
func (c *Ctx) NewSim() *rt.Sim {
	progress.Add(1) // a run made of many simulations is alive as long as it starts new ones
	s := rt.New(c.T)
	s.KeepTrace = c.Detail
	c.sims = append(c.sims, s)
	return s
}

// TempDir returns a fresh scratch directory for this run (outside /repo and /verif).
func (c *Ctx) TempDir() string {
	if c.tmp == "" {
		base := os.Getenv("VSIM_TMP")
		if base == "" {
			base = os.TempDir()
		}
		d, err := os.MkdirTemp(base, "run-")
		if err != nil {
			panic("vsim: cannot create temp dir: " + err.Error())
		}
		c.tmp = d
	}
	return c.tmp
}

type Prop struct {
	ID  string
	Run func(c *Ctx) *Outcome
}

// ---- summary written by an explore worker --------------------------------------

type Violation struct {
	Class     string   `json:"class"`
	Msg       string   `json:"msg"`
	RunIdx    uint64   `json:"run_idx"`
	Seed      uint64   `json:"run_seed"`
	Scen      []uint32 `json:"scen"`
	Dyn       []uint32 `json:"dyn"`
	EventHash uint64   `json:"event_hash"`
	Reruns    int      `json:"minimise_reruns"`
	OrigCells int      `json:"orig_cells"`
	OrigScen  []uint32 `json:"orig_scen,omitempty"`
	OrigDyn   []uint32 `json:"orig_dyn,omitempty"`
	BatchFrom uint64   `json:"batch_from"`
}

type Summary struct {
	Prop        string         `json:"prop"`
	Runs        int            `json:"runs"`
	Skipped     int            `json:"skipped"`
	Abandoned   int            `json:"abandoned"`
	Nontrivial  int            `json:"nontrivial"`
	Steps       int64          `json:"steps"`
	Switches    int64          `json:"switches"`
	SimTimeNs   int64          `json:"sim_time_ns"`
	GNSSWeeks   float64        `json:"gnss_weeks"`
	Probes      map[string]int `json:"probes"`
	Faults      map[string]int `json:"faults"`
	FaultRuns   map[string]int `json:"fault_runs"`
	Strategies  map[string]int `json:"strategies"`
	Verdicts    map[string]int `json:"verdicts"`
	Samples     []*Outcome     `json:"samples"`
	Violations  []Violation    `json:"violations"`
	ClassCounts map[string]int `json:"class_counts"`
	Infra       []string       `json:"infra"`
	NonDet      []string       `json:"nondeterminism"`
	// determinism spot checks that diverged at a select statement of the code
	// under test where the Go runtime, not the tape, picks among ready cases
	NonDetSelect   int      `json:"nondeterminism_runtime_select"`
	NonDetSelectAt []string `json:"nondeterminism_runtime_select_at"`
	// ... that two fresh processes do not show: process-global state of the code under test
	NonDetHistory int                `json:"nondeterminism_process_history"`
	DetChecked    int                `json:"determinism_checked"`
	DetFailed     int                `json:"determinism_failed"`
	MaxSteps      int                `json:"max_steps"`
	WallS         float64            `json:"wall_s"`
	HashFile      string             `json:"hash_file"`
	DistinctSch   int                `json:"distinct_schedules"`
	Extra         map[string]float64 `json:"extra,omitempty"`
}

func envInt(name string, def int64) int64 {
	v := os.Getenv(name)
	if v == "" {
		return def
	}
	n, err := strconv.ParseInt(v, 10, 64)
	if err != nil {
		fmt.Fprintf(os.Stderr, "vsim: bad %s=%q\n", name, v)
		os.Exit(2)
	}
	return n
}

// abandonAfter: a single run that takes longer than this of real time is given up
// (skipped, inconclusive).  runStarted is real time because the watchdog runs
// outside every bubble.
var abandonAfter = 75 * time.Second

var progress atomic.Int64
var curTape atomic.Pointer[rt.Tape]

// watchdog runs outside any bubble with real time: a goroutine of the code
// under test that never reaches a yield keeps synctest.Wait from returning.
func watchdog(limit time.Duration, dump string) {
	last := progress.Load() + rt.GlobalSteps.Load()
	lastChange := time.Now()
	for {
		time.Sleep(500 * time.Millisecond)
		if st := runStarted.Load(); st != 0 && time.Since(time.Unix(0, st)) > abandonAfter {
			rt.Abandon.Store(true)
		}
		p := progress.Load() + rt.GlobalSteps.Load()
		if p != last {
			last, lastChange = p, time.Now()
			continue
		}
		if time.Since(lastChange) > limit {
			fmt.Fprintf(os.Stderr, "vsim: WATCHDOG no progress for %v\n", limit)
			if t := curTape.Load(); t != nil && dump != "" {
				b, _ := json.Marshal(map[string]any{"scen": t.EffScen, "dyn": t.EffDyn, "seed": t.Seed})
				os.WriteFile(dump, b, 0o644)
			}
			buf := make([]byte, 1<<20)
			n := runtime.Stack(buf, true)
			os.Stderr.Write(buf[:n])
			os.Exit(3)
		}
	}
}

type runResult struct {
	out   *Outcome
	infra string
}

// runOne executes one simulated run in a fresh bubble.
var runStarted atomic.Int64 // unix nanoseconds (real time) at which the current run began; 0 = none

func runOne(t *testing.T, p *Prop, tape *rt.Tape, tier string, detail bool, idx uint64) (res runResult) {
	curTape.Store(tape)
	rt.Abandon.Store(false)
	runStarted.Store(time.Now().UnixNano())
	defer runStarted.Store(0)
	ctx := &Ctx{T: tape, Tier: tier, Detail: detail, RunIdx: idx}
	defer func() {
		if ctx.tmp != "" {
			os.RemoveAll(ctx.tmp)
		}
	}()
	func() {
		defer func() {
			// the end-of-bubble "blocked goroutines remain" panic is expected
			// (e.g. writer goroutines whose channel is never closed)
			if r := recover(); r != nil {
				msg := fmt.Sprint(r)
				if !strings.Contains(msg, "deadlock: main bubble goroutine has exited") {
					res.infra = "panic outside run: " + msg + "\n" + string(debug.Stack())
				}
			}
		}()
		synctest.Test(t, func(t *testing.T) {
			defer func() {
				if r := recover(); r != nil {
					res.infra = fmt.Sprintf("harness panic: %v\n%s", r, debug.Stack())
				}
			}()
			res.out = p.Run(ctx)
		})
	}()
	progress.Add(1)
	if res.out == nil {
		if res.infra == "" {
			res.infra = "run produced no outcome"
		}
		return
	}
	for _, s := range ctx.sims {
		if s.WasAbandoned {
			res.out = &Outcome{Skip: "abandoned: the run took more than the real-time allowance (inconclusive)"}
			return
		}
	}
	o := res.out
	h := fnv.New64a()
	o.SimTime = 0
	for _, s := range ctx.sims {
		if d := s.Active - s.Lead; d > 0 {
			o.SimTime += d
		}
		o.Steps += s.Steps
		o.Switches += s.Switches
		var b [8]byte
		binary.LittleEndian.PutUint64(b[:], s.Hash())
		h.Write(b[:])
	}
	fmt.Fprintf(h, "%s|%s|%d", o.Class, o.Verdict, o.ScenHash)
	o.EventHash = h.Sum64()
	if o.Infra != "" {
		res.infra = o.Infra
	}
	if detail {
		var tr []string
		for _, s := range ctx.sims {
			tr = append(tr, s.Trace...)
		}
		traceOf[o] = tr
	}
	return
}

var traceOf = map[*Outcome][]string{}

// selectDivergence reruns one tape with traces until two runs differ (at most
// eight reruns) and reports the site if the first difference is the clause
// that a select statement of the code under test took: the same goroutine, at
// the same step, continued at two different "selected" sites.  Anything else
// (or no divergence found) gives "".
func selectDivergence(t *testing.T, p *Prop, rs uint64, tier string, idx uint64) string {
	var first []string
	for i := 0; i < 8; i++ {
		r := runOne(t, p, rt.NewGenTape(rs), tier, true, idx)
		if r.out == nil {
			return ""
		}
		tr := traceOf[r.out]
		delete(traceOf, r.out)
		if first == nil {
			first = tr
			continue
		}
		n := min(len(first), len(tr))
		for k := 0; k < n; k++ {
			if first[k] == tr[k] {
				continue
			}
			a, b := first[k], tr[k]
			ia, ib := strings.Index(a, " @ "), strings.Index(b, " @ ")
			if ia > 0 && ia == ib && a[:ia] == b[:ib] && strings.HasSuffix(a, " selected") && strings.HasSuffix(b, " selected") {
				return a[:ia] + ": " + a[ia+3:] + " / " + b[ib+3:]
			}
			return ""
		}
		if len(first) != len(tr) {
			return ""
		}
	}
	return ""
}

// historyDependent runs the tape once in each of two fresh processes (this
// test binary, VSIM_MODE=hash).  If the two agree, a divergence seen inside a
// long-lived worker comes from state the code under test carried over from
// earlier runs of the process, not from the simulation.
func historyDependent(p *Prop, rs uint64, tier string, idx uint64) bool {
	var got [2]string
	for i := range got {
		cmd := exec.Command(os.Args[0], "-test.run", "^TestVsim$", "-test.timeout", "10m")
		cmd.Env = append(os.Environ(), "VSIM_MODE=hash", "VSIM_RUN_SEED="+strconv.FormatUint(rs, 10), "VSIM_RUN_IDX="+strconv.FormatUint(idx, 10), "VSIM_PROP="+p.ID, "VSIM_TIER="+tier)
		b, err := cmd.Output()
		if err != nil {
			return false
		}
		for _, line := range strings.Split(string(b), "\n") {
			if strings.HasPrefix(line, "EVENTHASH ") {
				got[i] = line
			}
		}
		if got[i] == "" || got[i] == "EVENTHASH none" {
			return false
		}
	}
	return got[0] == got[1]
}

func collapse(tr []string) []string {
	var out []string
	i := 0
	for i < len(tr) {
		j := i
		name := strings.SplitN(tr[i], " @ ", 2)[0]
		for j+1 < len(tr) && strings.SplitN(tr[j+1], " @ ", 2)[0] == name && strings.Contains(tr[j+1], " @ ") {
			j++
		}
		if j > i+1 && strings.Contains(tr[i], " @ ") {
			out = append(out, tr[i], fmt.Sprintf("   ... %d more steps of %s ...", j-i-1, name), tr[j])
		} else {
			out = append(out, tr[i:j+1]...)
		}
		i = j + 1
	}
	return out
}

// ReplayFile is the on-disk replay artefact.
type ReplayFile struct {
	Property  string   `json:"property"`
	Class     string   `json:"class"`
	Msg       string   `json:"msg"`
	Tier      string   `json:"tier"`
	CheckSeed uint64   `json:"check_seed"`
	RunIdx    uint64   `json:"run_idx"`
	RunSeed   uint64   `json:"run_seed"`
	Scen      []uint32 `json:"scen_tape"`
	Dyn       []uint32 `json:"dyn_tape"`
	EventHash uint64   `json:"event_hash"`
	TreeFP    string   `json:"tree_fingerprint"`
	Engine    string   `json:"engine"`
	// expanded, for the reader (derived by re-running the tape)
	Scenario any      `json:"scenario,omitempty"`
	Faults   any      `json:"faults,omitempty"`
	Schedule []string `json:"schedule_and_events,omitempty"`
	Minimise string   `json:"minimisation,omitempty"`
	Panics   []string `json:"panics,omitempty"`
}

const EngineVersion = "vsim-1"

// Main is the body of the single Test function of a harness binary.
func Main(t *testing.T, props ...*Prop) {
	id := os.Getenv("VSIM_PROP")
	if id == "" {
		t.Skip("VSIM_PROP not set (run through vcheck)")
	}
	var p *Prop
	for _, q := range props {
		if q.ID == id {
			p = q
		}
	}
	if p == nil {
		fmt.Fprintf(os.Stderr, "vsim: property %s not served by this harness\n", id)
		os.Exit(2)
	}
	tier := os.Getenv("VSIM_TIER")
	if tier == "" {
		tier = "quick"
	}
	go watchdog(time.Duration(envInt("VSIM_WATCHDOG_S", 30))*time.Second, os.Getenv("VSIM_WATCHDOG_DUMP"))
	switch os.Getenv("VSIM_MODE") {
	case "replay":
		replay(t, p, tier)
	case "hash":
		// one run of one tape in this fresh process: print the event-log hash
		rs, _ := strconv.ParseUint(os.Getenv("VSIM_RUN_SEED"), 10, 64)
		idx := uint64(envInt("VSIM_RUN_IDX", 0))
		r := runOne(t, p, rt.NewGenTape(rs), tier, false, idx)
		if r.out == nil {
			fmt.Println("EVENTHASH none")
		} else {
			fmt.Printf("EVENTHASH %x %s\n", r.out.EventHash, r.out.Class)
		}
	default:
		explore(t, p, tier)
	}
}

func writeJSON(path string, v any) {
	b, err := json.MarshalIndent(v, "", " ")
	if err != nil {
		fmt.Fprintln(os.Stderr, "vsim: marshal:", err)
		os.Exit(2)
	}
	if err := os.WriteFile(path, b, 0o644); err != nil {
		fmt.Fprintln(os.Stderr, "vsim: write:", err)
		os.Exit(2)
	}
}

func explore(t *testing.T, p *Prop, tier string) {
	seed := uint64(envInt("VERIF_SEED", 1))
	from := uint64(envInt("VSIM_FROM", 0))
	count := uint64(envInt("VSIM_COUNT", 100))
	stride := uint64(envInt("VSIM_STRIDE", 1))
	wall := time.Duration(envInt("VSIM_WALL_S", 3600)) * time.Second
	out := os.Getenv("VSIM_OUT")
	maxViol := int(envInt("VSIM_MAX_VIOL", 2))
	minBudget := int(envInt("VSIM_MIN_RERUNS", 300))
	detEvery := uint64(envInt("VSIM_DET_EVERY", 50))
	nSamples := int(envInt("VSIM_SAMPLES", 2))
	t0 := time.Now()
	sum := &Summary{Prop: p.ID, Probes: map[string]int{}, Faults: map[string]int{}, FaultRuns: map[string]int{}, Strategies: map[string]int{},
		Verdicts: map[string]int{}, ClassCounts: map[string]int{}, Extra: map[string]float64{}}
	pairs := map[uint64]struct{}{}
	scheds := map[uint64]struct{}{}
	var evHashes []string
	for k := uint64(0); k < count; k++ {
		if time.Since(t0) > wall {
			break
		}
		idx := from + k*stride
		rs := rt.Mix(seed, p.ID, idx)
		tape := rt.NewGenTape(rs)
		wantDetail := len(sum.Samples) < nSamples && k%7 == 3
		r := runOne(t, p, tape, tier, wantDetail, idx)
		if r.infra != "" {
			sum.Infra = append(sum.Infra, fmt.Sprintf("run %d (seed %d): %s", idx, rs, r.infra))
			if len(sum.Infra) > 3 {
				break
			}
			continue
		}
		o := r.out
		if o.Skip != "" {
			sum.Skipped++
			if strings.HasPrefix(o.Skip, "abandoned") {
				sum.Abandoned++
			}
			continue
		}
		sum.Runs++
		sum.Steps += int64(o.Steps)
		sum.Switches += int64(o.Switches)
		sum.SimTimeNs += int64(o.SimTime)
		sum.GNSSWeeks += o.GNSSWeeks
		if o.Steps > sum.MaxSteps {
			sum.MaxSteps = o.Steps
		}
		for k, v := range o.Probes {
			sum.Probes[k] += v
		}
		for k, v := range o.Faults {
			sum.Faults[k] += v
			sum.FaultRuns[k]++
		}
		if o.Strategy != "" {
			sum.Strategies[o.Strategy]++
		}
		if o.Verdict != "" {
			sum.Verdicts[o.Verdict]++
		}
		scheds[o.EventHash] = struct{}{}
		if os.Getenv("VSIM_DUMP_HASHES") != "" {
			evHashes = append(evHashes, fmt.Sprintf("%d %x %s", idx, o.EventHash, o.Class))
		}
		if o.Nontrivial {
			sum.Nontrivial++
			pairs[o.ScenHash*0x9e3779b97f4a7c15^o.EventHash] = struct{}{}
		}
		if wantDetail && o.Class == "" {
			tr := traceOf[o]
			delete(traceOf, o)
			if len(tr) > 40 {
				tr = append(tr[:40:40], fmt.Sprintf("... %d more events", len(tr)-40))
			}
			if o.Sample == nil {
				o.Sample = map[string]any{}
			}
			sum.Samples = append(sum.Samples, &Outcome{Sample: map[string]any{"run_idx": idx, "run_seed": rs, "scenario": o.Sample, "faults": o.Faults, "strategy": o.Strategy,
				"steps": o.Steps, "context_switches": o.Switches, "verdict": o.Verdict, "schedule_prefix": tr}})
		}
		delete(traceOf, o)
		// determinism spot check: the same tape must give the same event log
		if detEvery > 0 && k%detEvery == 0 {
			r2 := runOne(t, p, rt.NewGenTape(rs), tier, false, idx)
			sum.DetChecked++
			if r2.out == nil || r2.out.EventHash != o.EventHash {
				sum.DetFailed++
				if o.Class != "" || (r2.out != nil && r2.out.Class != "") {
					// The code under test itself behaves nondeterministically (e.g. it
					// iterates over a map that another goroutine modifies) AND violates
					// the property: the violation is what gets reported, after replay.
					sum.Probes["nondeterministic-code-under-test-with-violation"]++
				} else {
					if d := os.Getenv("VSIM_NONDET_DUMP"); d != "" && len(sum.NonDet) < 2 {
						// debugging aid: the two event logs side by side
						for i := 0; i < 2; i++ {
							r3 := runOne(t, p, rt.NewGenTape(rs), tier, true, idx)
							if r3.out != nil {
								os.WriteFile(fmt.Sprintf("%s/nondet-%d-%d.txt", d, idx, i), []byte(strings.Join(traceOf[r3.out], "\n")+"\n"), 0o644)
								delete(traceOf, r3.out)
							}
						}
					}
					// Is it the Go runtime's own choice among several ready cases of a
					// select?  That choice is outside the tape (documented blind spot):
					// the run is still a legal execution, it just does not replay.  Find
					// two traced reruns that differ and look at the first difference.
					if historyDependent(p, rs, tier, idx) {
						// The event log of this tape depends on what the process ran before:
						// the code under test keeps state in package variables (a cache, a
						// pool, a "seen before" flag).  Two fresh processes agree with each
						// other, so the simulation itself is deterministic; the run is judged
						// like any other (whether the OUTPUT depends on the history is what
						// the oracles of the property decide, not this).
						sum.NonDetHistory++
						sum.Probes["event-log-depends-on-process-history"]++
						goto classified
					}
					if sel := selectDivergence(t, p, rs, tier, idx); sel != "" {
						sum.NonDetSelect++
						if len(sum.NonDetSelectAt) < 5 {
							sum.NonDetSelectAt = append(sum.NonDetSelectAt, sel)
						}
						sum.Probes["runtime-select-choice-diverged"]++
						goto classified
					}
					if len(sum.NonDet) < 5 {
						sum.NonDet = append(sum.NonDet, fmt.Sprintf("NONDETERMINISM run %d seed %d: event log %x vs %x", idx, rs, o.EventHash, r2.out.EventHash))
					}
				}
			}
		classified:
		}
		if o.Class != "" {
			sum.ClassCounts[o.Class]++
			have := false
			for _, v := range sum.Violations {
				if v.Class == o.Class {
					have = true
				}
			}
			if !have && len(sum.Violations) < maxViol {
				if os.Getenv("VSIM_NO_MINIMISE") != "" {
					sum.Violations = append(sum.Violations, Violation{Class: o.Class, Msg: o.Msg, RunIdx: idx, Seed: rs, Scen: tape.EffScen, Dyn: tape.EffDyn,
						EventHash: o.EventHash, OrigCells: len(tape.EffScen) + len(tape.EffDyn), BatchFrom: from})
					continue
				}
				scen, dyn, reruns, last := minimise(t, p, tier, tape.EffScen, tape.EffDyn, o.Class, minBudget)
				sum.Violations = append(sum.Violations, Violation{Class: o.Class, Msg: last.Msg, RunIdx: idx, Seed: rs, Scen: scen, Dyn: dyn,
					EventHash: last.EventHash, Reruns: reruns, OrigCells: len(tape.EffScen) + len(tape.EffDyn), OrigScen: tape.EffScen, OrigDyn: tape.EffDyn, BatchFrom: from})
			}
		}
	}
	sum.WallS = time.Since(t0).Seconds()
	sum.DistinctSch = len(scheds)
	if out != "" {
		hf := out + ".hashes"
		buf := make([]byte, 0, 8*len(pairs))
		keys := make([]uint64, 0, len(pairs))
		for k := range pairs {
			keys = append(keys, k)
		}
		sort.Slice(keys, func(i, j int) bool { return keys[i] < keys[j] })
		for _, k := range keys {
			buf = binary.LittleEndian.AppendUint64(buf, k)
		}
		os.WriteFile(hf, buf, 0o644)
		sum.HashFile = hf
		if len(evHashes) > 0 {
			os.WriteFile(out+".evhashes", []byte(strings.Join(evHashes, "\n")), 0o644)
		}
		writeJSON(out, sum)
	} else {
		b, _ := json.MarshalIndent(sum, "", " ")
		fmt.Println(string(b))
	}
}

// minimise shrinks the two tape streams while the same violation class persists.
func minimise(t *testing.T, p *Prop, tier string, scen, dyn []uint32, class string, budget int) ([]uint32, []uint32, int, *Outcome) {
	reruns := 0
	research := budget / 2
	deadline := time.Now().Add(time.Duration(envInt("VSIM_MIN_WALL_S", 25)) * time.Second)
	var lastOut *Outcome
	stopped := func() bool { return reruns >= budget || time.Now().After(deadline) }
	try := func(s, d []uint32) ([]uint32, []uint32, bool) {
		if stopped() {
			return nil, nil, false
		}
		reruns++
		tp := rt.NewReplayTape(s, d)
		r := runOne(t, p, tp, tier, false, 0)
		if r.infra != "" || r.out == nil || r.out.Class != class {
			return nil, nil, false
		}
		lastOut = r.out
		// normalise to the cells actually used
		return trimZeros(tp.EffScen), trimZeros(tp.EffDyn), true
	}
	// establish baseline (also normalises)
	s0, d0, ok := try(scen, dyn)
	if !ok {
		// cannot even reproduce with the recorded tape: report the original
		o := &Outcome{Class: class, Msg: "(not reproducible from recorded tape)"}
		return scen, dyn, reruns, o
	}
	scen, dyn = s0, d0
	shrinkStream := func(which int) bool {
		improved := false
		get := func() []uint32 {
			if which == 0 {
				return scen
			}
			return dyn
		}
		attempt := func(c []uint32) bool {
			var s, d []uint32
			if which == 0 {
				s, d = c, dyn
			} else {
				s, d = scen, c
			}
			ns, nd, ok := try(s, d)
			if ok && (len(ns)+len(nd) < len(scen)+len(dyn) || sum(ns)+sum(nd) < sum(scen)+sum(dyn)) {
				scen, dyn = ns, nd
				improved = true
				return true
			}
			if !ok && which == 0 && research > 0 {
				// a simpler scenario may need a different schedule: look for one
				for k := 0; k < 6 && research > 0 && reruns < budget && time.Now().Before(deadline); k++ {
					research--
					reruns++
					tp := rt.NewMixedTape(s, uint64(reruns)*7919+uint64(k))
					r := runOne(t, p, tp, tier, false, 0)
					if r.infra == "" && r.out != nil && r.out.Class == class {
						ns, nd := trimZeros(tp.EffScen), trimZeros(tp.EffDyn)
						if len(ns) < len(scen) || sum(ns) < sum(scen) {
							lastOut = r.out
							scen, dyn = ns, nd
							improved = true
							return true
						}
					}
				}
			}
			return false
		}
		// 1. truncate (binary search on length)
		lo, hi := 0, len(get())
		for lo < hi && !stopped() {
			mid := (lo + hi) / 2
			if attempt(append([]uint32(nil), get()[:mid]...)) {
				hi = len(get())
				if hi > mid {
					hi = mid
				}
			} else {
				lo = mid + 1
			}
		}
		// 2. delete blocks / zero blocks
		for _, bs := range []int{4096, 512, 64, 16, 8, 4, 2, 1} {
			if bs > len(get()) {
				continue
			}
			for i := 0; i+bs <= len(get()) && !stopped(); {
				cur := get()
				c := append(append([]uint32(nil), cur[:i]...), cur[i+bs:]...)
				if attempt(c) {
					continue
				}
				allZero := true
				for _, v := range cur[i : i+bs] {
					if v != 0 {
						allZero = false
					}
				}
				if !allZero {
					c = append([]uint32(nil), cur...)
					for j := i; j < i+bs; j++ {
						c[j] = 0
					}
					if attempt(c) {
						i += bs
						continue
					}
				}
				i += bs
			}
		}
		// 3. lower single cells
		for i := 0; i < len(get()) && !stopped(); i++ {
			cur := get()
			if i >= len(cur) || cur[i] == 0 {
				continue
			}
			lo, hi := uint32(0), cur[i]
			for lo < hi && !stopped() {
				mid := lo + (hi-lo)/2
				c := append([]uint32(nil), get()...)
				if i >= len(c) {
					break
				}
				c[i] = mid
				if attempt(c) {
					hi = mid
				} else {
					lo = mid + 1
				}
			}
		}
		return improved
	}
	for pass := 0; pass < 6 && !stopped(); pass++ {
		a := shrinkStream(1)
		b := shrinkStream(0)
		if !a && !b {
			break
		}
	}
	if lastOut == nil {
		lastOut = &Outcome{Class: class}
	}
	return scen, dyn, reruns, lastOut
}

func sum(c []uint32) (t uint64) {
	for _, v := range c {
		t += uint64(v)
	}
	return
}

func trimZeros(c []uint32) []uint32 {
	n := len(c)
	for n > 0 && c[n-1] == 0 {
		n--
	}
	return append([]uint32(nil), c[:n]...)
}

func replay(t *testing.T, p *Prop, tier string) {
	path := os.Getenv("VSIM_REPLAY")
	out := os.Getenv("VSIM_OUT")
	b, err := os.ReadFile(path)
	if err != nil {
		fmt.Fprintln(os.Stderr, "vsim: replay:", err)
		os.Exit(2)
	}
	var rf ReplayFile
	if err := json.Unmarshal(b, &rf); err != nil {
		fmt.Fprintln(os.Stderr, "vsim: replay:", err)
		os.Exit(2)
	}
	if rf.Tier != "" {
		tier = rf.Tier
	}
	r := runOne(t, p, rt.NewReplayTape(rf.Scen, rf.Dyn), tier, true, rf.RunIdx)
	if r.infra != "" {
		fmt.Fprintln(os.Stderr, "vsim: replay infra:", r.infra)
		os.Exit(2)
	}
	o := r.out
	res := map[string]any{"class": o.Class, "msg": o.Msg, "event_hash": o.EventHash, "scenario": o.Sample, "faults": o.Faults,
		"schedule": collapse(traceOf[o]), "steps": o.Steps, "verdict": o.Verdict}
	if out != "" {
		writeJSON(out, res)
	} else {
		bb, _ := json.MarshalIndent(res, "", " ")
		fmt.Println(string(bb))
	}
}

// SamplePath helps harnesses that want to keep a file artefact.
func SamplePath(name string) string { return filepath.Join(os.Getenv("VSIM_TMP"), name) }
