// Package instr rewrites the repository's Go sources into instrumented copies
// that are handed to the compiler through `go build -overlay`: yield points
// around every synchronisation operation, gated goroutine creation, lock
// emulation, simulated standard streams.  /repo is never written to.
package instr

import (
	"bytes"
	"encoding/json"
	"fmt"
	"go/ast"
	"go/parser"
	"go/printer"
	"go/token"
	"os"
	"path/filepath"
	"sort"
	"strconv"
	"strings"

	"verif/vsim/rt"
)

const rtPath = "verif/vsim/rt"
const rtName = "vsimrt"

// LegacyTimers: rewrite time.NewTimer & co. to rt's timers with the pre-1.23
// channel semantics (set by Tree from the go directive of the module under test).
var LegacyTimers = true

// Granularity per package directory.
var StmtPkgs = map[string]bool{
	"apps/proxy/circular_queue": true,
	"apps/proxy/reportfeed":     true,
	"rtcm/pushback":             true,
	// the concurrent glue: a run may switch on a yield before every statement
	// there ("fine-grained mode"), so that two goroutines sharing state without
	// (enough) synchronisation interleave between any two statements
	"file_handler":      true,
	"apps/appcore":      true,
	"apps/rtcmfilter":   true,
	"apps/displayrtcm3": true,
	"apps/rtcmlogger":   true,
	"apps/proxy":        true,
}
var FnPkgs = map[string]bool{
	"rtcm/handler":             true,
	"rtcm/header":              true,
	"rtcm/type1005":            true,
	"rtcm/type1006":            true,
	"rtcm/type_msm4/message":   true,
	"rtcm/type_msm4/satellite": true,
	"rtcm/type_msm4/signal":    true,
	"rtcm/type_msm7/message":   true,
	"rtcm/type_msm7/satellite": true,
	"rtcm/type_msm7/signal":    true,
}

type ctx struct {
	fset          *token.FileSet
	rel           string
	pkgID         int
	changed       bool
	stmtG         bool
	fnG           bool
	counts        map[string]int
	tmp           int
	timeRewritten bool
	netRewritten  bool
	httpRewritten bool
	chanName      map[string]bool // identifiers known to be channels (heuristic, for range)
	chanType      map[string]bool // named channel types of the package
}

func (c *ctx) site(n ast.Node, kind string) ast.Expr {
	p := c.fset.Position(n.Pos())
	if i := strings.IndexByte(kind, ' '); i > 0 {
		c.counts[kind[:i]]++
	} else {
		c.counts[kind]++
	}
	return &ast.BasicLit{Kind: token.STRING, Value: strconv.Quote(fmt.Sprintf("%s:%d %s", c.rel, p.Line, kind))}
}

func rtCall(name string, args ...ast.Expr) *ast.CallExpr {
	return &ast.CallExpr{Fun: &ast.SelectorExpr{X: ast.NewIdent(rtName), Sel: ast.NewIdent(name)}, Args: args}
}

func (c *ctx) yield(n ast.Node, kind string) ast.Stmt {
	c.changed = true
	return &ast.ExprStmt{X: rtCall("Yield", c.site(n, kind))}
}

func (c *ctx) yieldG(n ast.Node, fn, kind string) ast.Stmt {
	c.changed = true
	return &ast.ExprStmt{X: rtCall(fn, &ast.BasicLit{Kind: token.INT, Value: strconv.Itoa(c.pkgID)}, c.site(n, kind))}
}

// chanOps reports whether the simple statement contains a send/receive outside nested func literals.
func chanOps(s ast.Stmt) (found bool) {
	ast.Inspect(s, func(n ast.Node) bool {
		switch x := n.(type) {
		case *ast.FuncLit:
			return false
		case *ast.SendStmt:
			found = true
		case *ast.UnaryExpr:
			if x.Op == token.ARROW {
				found = true
			}
		}
		return !found
	})
	return
}

func methodCall(e ast.Expr, names ...string) (*ast.CallExpr, ast.Expr, string) {
	call, ok := e.(*ast.CallExpr)
	if !ok || len(call.Args) != 0 {
		return nil, nil, ""
	}
	if f, ok := call.Fun.(*ast.SelectorExpr); ok {
		for _, n := range names {
			if f.Sel.Name == n {
				return call, f.X, n
			}
		}
	}
	return nil, nil, ""
}

func builtinCall(e ast.Expr, name string) *ast.CallExpr {
	call, ok := e.(*ast.CallExpr)
	if !ok {
		return nil
	}
	if id, ok := call.Fun.(*ast.Ident); ok && id.Name == name {
		return call
	}
	return nil
}

func isPkgCall(e ast.Expr, pkg, name string) *ast.CallExpr {
	call, ok := e.(*ast.CallExpr)
	if !ok {
		return nil
	}
	if s, ok := call.Fun.(*ast.SelectorExpr); ok {
		if id, ok := s.X.(*ast.Ident); ok && id.Name == pkg && s.Sel.Name == name {
			return call
		}
	}
	return nil
}

func terminates(s ast.Stmt) bool {
	switch x := s.(type) {
	case *ast.ReturnStmt, *ast.BranchStmt:
		return true
	case *ast.ExprStmt:
		if c, ok := x.X.(*ast.CallExpr); ok {
			if id, ok := c.Fun.(*ast.Ident); ok && id.Name == "panic" {
				return true
			}
		}
	}
	return false
}

func (c *ctx) list(in []ast.Stmt) []ast.Stmt {
	var out []ast.Stmt
	for _, s := range in {
		if l, ok := s.(*ast.LabeledStmt); ok {
			// instrument the labelled statement's children only
			c.children(l.Stmt)
			out = append(out, s)
			continue
		}
		// the "statements" of a switch/select body are its clauses: instrument
		// their bodies, never put anything between them
		switch cl := s.(type) {
		case *ast.CaseClause:
			cl.Body = c.list(cl.Body)
			out = append(out, s)
			continue
		case *ast.CommClause:
			cl.Body = c.list(cl.Body)
			out = append(out, s)
			continue
		}
		pre, repl, post := c.stmt(s)
		if c.stmtG && len(pre) == 0 {
			if _, isDecl := s.(*ast.DeclStmt); !isDecl {
				pre = append(pre, c.yieldG(s, "YieldS", "stmt"))
			}
		}
		out = append(out, pre...)
		out = append(out, repl)
		if !terminates(repl) {
			out = append(out, post...)
		}
	}
	return out
}

func selector(x ast.Expr, name string) ast.Expr {
	return &ast.SelectorExpr{X: x, Sel: ast.NewIdent(name)}
}

// lockCall builds vsimrt.Lock(site, x.TryLock, x.Lock) (method values, so that
// promoted methods and addressable values work alike).
func (c *ctx) lockCall(n ast.Node, recv ast.Expr, name string) ast.Expr {
	c.changed = true
	fn, try := "Lock", "TryLock"
	if name == "RLock" {
		fn, try = "RLock", "TryRLock"
	}
	addr := &ast.UnaryExpr{Op: token.AND, X: recv}
	return rtCall(fn, c.site(n, strings.ToLower(name)), addr, selector(recv, try), selector(recv, name))
}

// stmt returns statements to put before/after s and the (possibly replaced) s.
func (c *ctx) stmt(s ast.Stmt) (pre []ast.Stmt, repl ast.Stmt, post []ast.Stmt) {
	repl = s
	switch x := s.(type) {
	case *ast.GoStmt:
		c.children(s)
		repl = c.goStmt(x)
		return
	case *ast.DeferStmt:
		if call := builtinCall(x.Call, "close"); call != nil {
			c.changed = true
			body := &ast.BlockStmt{List: []ast.Stmt{c.yield(x, "close"), &ast.ExprStmt{X: call}, c.yield(x, "closed")}}
			repl = &ast.DeferStmt{Call: &ast.CallExpr{Fun: &ast.FuncLit{Type: &ast.FuncType{Params: &ast.FieldList{}}, Body: body}}}
			return
		}
		if call, _, name := methodCall(x.Call, "Unlock", "RUnlock"); call != nil {
			c.changed = true
			c.counts[strings.ToLower(name)]++
			body := &ast.BlockStmt{List: []ast.Stmt{&ast.ExprStmt{X: call}, &ast.ExprStmt{X: rtCall("Unlocked")}}}
			repl = &ast.DeferStmt{Call: &ast.CallExpr{Fun: &ast.FuncLit{Type: &ast.FuncType{Params: &ast.FieldList{}}, Body: body}}}
			return
		}
		c.children(s)
		return
	case *ast.ExprStmt:
		if call, recv, name := methodCall(x.X, "Lock", "RLock"); call != nil {
			repl = &ast.ExprStmt{X: c.lockCall(x, recv, name)}
			return
		}
		if call, _, name := methodCall(x.X, "Unlock", "RUnlock"); call != nil {
			c.changed = true
			c.counts[strings.ToLower(name)]++
			post = append(post, &ast.ExprStmt{X: rtCall("Unlocked")})
			return
		}
		if call := builtinCall(x.X, "close"); call != nil {
			pre = append(pre, c.yield(x, "close"))
			post = append(post, c.yield(x, "closed"))
			return
		}
		if isPkgCall(x.X, "time", "Sleep") != nil {
			post = append(post, c.yield(x, "slept"))
			return
		}
		if call, _, _ := methodCall(x.X, "Wait"); call != nil {
			pre = append(pre, c.yield(x, "wait"))
			post = append(post, c.yield(x, "waited"))
			return
		}
	case *ast.SelectStmt:
		c.children(s)
		pre = append(pre, c.yield(x, "select"))
		// the goroutine parks again at the top of whichever clause was chosen (a
		// yield after the select would make a terminating select non-terminating)
		for _, cl := range x.Body.List {
			if cc, ok := cl.(*ast.CommClause); ok {
				cc.Body = append([]ast.Stmt{c.yield(cc, "selected")}, cc.Body...)
			}
		}
		return
	case *ast.RangeStmt:
		c.children(s)
		if c.isChanExpr(x.X) {
			// yields at the top and bottom of the body and after the loop
			x.Body.List = append(append([]ast.Stmt{c.yield(x, "range-recvd")}, x.Body.List...), c.yield(x, "range-next"))
			pre = append(pre, c.yield(x, "range"))
			post = append(post, c.yield(x, "range-done"))
		}
		return
	case *ast.ForStmt, *ast.IfStmt, *ast.SwitchStmt, *ast.TypeSwitchStmt, *ast.BlockStmt:
		c.children(s)
		if chanOpsInHeader(s) {
			pre = append(pre, c.yield(s, "chan"))
		}
		return
	}
	// simple statement
	c.children(s) // func literals inside
	if chanOps(s) {
		pre = append(pre, c.yield(s, "chan"))
		post = append(post, c.yield(s, "chan-done"))
	}
	return
}

// chanOpsInHeader: `if v, ok := <-ch; ok {` and friends.
func chanOpsInHeader(s ast.Stmt) bool {
	var parts []ast.Node
	switch x := s.(type) {
	case *ast.IfStmt:
		if x.Init != nil {
			parts = append(parts, x.Init)
		}
		parts = append(parts, x.Cond)
	case *ast.SwitchStmt:
		if x.Init != nil {
			parts = append(parts, x.Init)
		}
		if x.Tag != nil {
			parts = append(parts, x.Tag)
		}
	case *ast.ForStmt:
		if x.Init != nil {
			parts = append(parts, x.Init)
		}
	}
	for _, p := range parts {
		found := false
		ast.Inspect(p, func(n ast.Node) bool {
			switch y := n.(type) {
			case *ast.FuncLit:
				return false
			case *ast.UnaryExpr:
				if y.Op == token.ARROW {
					found = true
				}
			}
			return !found
		})
		if found {
			return true
		}
	}
	return false
}

func (c *ctx) isChanExpr(e ast.Expr) bool {
	switch x := e.(type) {
	case *ast.Ident:
		return c.chanName[x.Name]
	case *ast.SelectorExpr:
		return c.chanName[x.Sel.Name]
	case *ast.ParenExpr:
		return c.isChanExpr(x.X)
	}
	return false
}

func (c *ctx) isChanTypeExpr(e ast.Expr) bool {
	switch x := e.(type) {
	case *ast.ChanType:
		return true
	case *ast.Ident:
		return c.chanType[x.Name]
	case *ast.ParenExpr:
		return c.isChanTypeExpr(x.X)
	}
	return false
}

// collectChans finds identifiers declared with a channel type or assigned from make(chan ...).
func (c *ctx) collectChans(f *ast.File) {
	ast.Inspect(f, func(n ast.Node) bool {
		switch x := n.(type) {
		case *ast.Field:
			if c.isChanTypeExpr(x.Type) {
				for _, id := range x.Names {
					c.chanName[id.Name] = true
				}
			}
		case *ast.ValueSpec:
			if x.Type != nil && c.isChanTypeExpr(x.Type) {
				for _, id := range x.Names {
					c.chanName[id.Name] = true
				}
			}
			for i, v := range x.Values {
				if i < len(x.Names) && c.isMakeChan(v) {
					c.chanName[x.Names[i].Name] = true
				}
			}
		case *ast.AssignStmt:
			for i, v := range x.Rhs {
				if i < len(x.Lhs) && c.isMakeChan(v) {
					switch l := x.Lhs[i].(type) {
					case *ast.Ident:
						c.chanName[l.Name] = true
					case *ast.SelectorExpr:
						c.chanName[l.Sel.Name] = true
					}
				}
			}
		}
		return true
	})
}

func (c *ctx) isMakeChan(e ast.Expr) bool {
	call := builtinCall(e, "make")
	return call != nil && len(call.Args) > 0 && c.isChanTypeExpr(call.Args[0])
}

func (c *ctx) goStmt(g *ast.GoStmt) ast.Stmt {
	c.changed = true
	var stmts []ast.Stmt
	call := g.Call
	fun := call.Fun
	if _, ok := fun.(*ast.FuncLit); !ok || len(call.Args) > 0 {
		c.tmp++
		fn := ast.NewIdent("vsimF" + strconv.Itoa(c.tmp))
		stmts = append(stmts, &ast.AssignStmt{Lhs: []ast.Expr{fn}, Tok: token.DEFINE, Rhs: []ast.Expr{fun}})
		fun = fn
	}
	var args []ast.Expr
	for i, a := range call.Args {
		switch v := a.(type) {
		case *ast.BasicLit:
			args = append(args, a)
			continue
		case *ast.Ident:
			if v.Name == "nil" || v.Name == "true" || v.Name == "false" {
				args = append(args, a)
				continue
			}
		}
		c.tmp++
		id := ast.NewIdent("vsimA" + strconv.Itoa(c.tmp) + "_" + strconv.Itoa(i))
		stmts = append(stmts, &ast.AssignStmt{Lhs: []ast.Expr{id}, Tok: token.DEFINE, Rhs: []ast.Expr{a}})
		args = append(args, id)
	}
	if fl, ok := fun.(*ast.FuncLit); ok && len(args) == 0 {
		stmts = append(stmts, &ast.ExprStmt{X: rtCall("Go", c.site(g, "go"), fl)})
		return &ast.BlockStmt{List: stmts}
	}
	body := &ast.ExprStmt{X: &ast.CallExpr{Fun: fun, Args: args, Ellipsis: call.Ellipsis}}
	lit := &ast.FuncLit{Type: &ast.FuncType{Params: &ast.FieldList{}}, Body: &ast.BlockStmt{List: []ast.Stmt{body}}}
	spawn := "Go"
	if sel, ok := call.Fun.(*ast.SelectorExpr); ok && DaemonFuncs[sel.Sel.Name] {
		spawn = "GoDaemon" // a service goroutine that never ends (log rotation): scheduled like the others, not counted as work in progress
	}
	stmts = append(stmts, &ast.ExprStmt{X: rtCall(spawn, c.site(g, "go"), lit)})
	return &ast.BlockStmt{List: stmts}
}

// children instruments statement lists nested in n (blocks, case clauses, func literals).
func (c *ctx) children(n ast.Node) {
	ast.Inspect(n, func(m ast.Node) bool {
		if m == n {
			return true
		}
		switch x := m.(type) {
		case *ast.BlockStmt:
			x.List = c.list(x.List)
			return false
		case *ast.CaseClause:
			x.Body = c.list(x.Body)
			return false
		case *ast.CommClause:
			x.Body = c.list(x.Body)
			return false
		}
		return true
	})
}

func (c *ctx) file(f *ast.File) {
	usesOS := false
	for _, im := range f.Imports {
		if im.Path.Value == `"os"` && im.Name == nil {
			usesOS = true
		}
	}
	c.collectChans(f)
	for _, d := range f.Decls {
		fd, ok := d.(*ast.FuncDecl)
		if !ok || fd.Body == nil {
			continue
		}
		fd.Body.List = c.list(fd.Body.List)
		if c.fnG && fd.Name.Name != "init" {
			fd.Body.List = append([]ast.Stmt{c.yieldG(fd, "YieldF", "fn "+fd.Name.Name)}, fd.Body.List...)
		}
	}
	usesTime := false
	for _, im := range f.Imports {
		if im.Path.Value == `"time"` && im.Name == nil {
			usesTime = true
		}
	}
	if usesTime && LegacyTimers {
		// timers with the legacy channel semantics of the module's Go version
		ast.Inspect(f, func(n ast.Node) bool {
			sel, ok := n.(*ast.SelectorExpr)
			if !ok {
				return true
			}
			if id, ok := sel.X.(*ast.Ident); ok && id.Name == "time" && id.Obj == nil {
				switch sel.Sel.Name {
				case "NewTimer", "After", "AfterFunc", "NewTicker", "Tick", "Timer", "Ticker":
					id.Name = rtName
					c.changed = true
					c.timeRewritten = true
					c.counts["time."+sel.Sel.Name]++
				}
			}
			return true
		})
	}
	if usesOS {
		ast.Inspect(f, func(n ast.Node) bool {
			sel, ok := n.(*ast.SelectorExpr)
			if !ok {
				return true
			}
			if id, ok := sel.X.(*ast.Ident); ok && id.Name == "os" && id.Obj == nil {
				switch sel.Sel.Name {
				case "Stdin", "Stdout", "Stderr", "Exit":
					id.Name = rtName
					c.changed = true
					c.counts["os."+sel.Sel.Name]++
				}
			}
			return true
		})
	}
	// the network seam: listening, dialling and the HTTP service registration go
	// through rt, where a harness can install a simulated network (rt/net.go)
	usesNet, usesHTTP := false, false
	for _, im := range f.Imports {
		if im.Path.Value == `"net"` && im.Name == nil {
			usesNet = true
		}
		if im.Path.Value == `"net/http"` && im.Name == nil {
			usesHTTP = true
		}
	}
	if usesNet || usesHTTP {
		ast.Inspect(f, func(n ast.Node) bool {
			sel, ok := n.(*ast.SelectorExpr)
			if !ok {
				return true
			}
			id, ok := sel.X.(*ast.Ident)
			if !ok || id.Obj != nil {
				return true
			}
			if usesNet && id.Name == "net" {
				switch sel.Sel.Name {
				case "Listen", "Dial", "DialTimeout":
					id.Name = rtName
					c.changed = true
					c.netRewritten = true
					c.counts["net."+sel.Sel.Name]++
				}
			}
			if usesHTTP && id.Name == "http" {
				switch sel.Sel.Name {
				case "HandleFunc", "ListenAndServe":
					id.Name = rtName
					c.changed = true
					c.httpRewritten = true
					c.counts["http."+sel.Sel.Name]++
				}
			}
			return true
		})
	}
	// slog handlers serialise their writes with a mutex of their own, which the
	// scheduler cannot see: a goroutine parked inside the writer (a simulated disk,
	// an emulated lock) would block the next logging goroutine outside the
	// scheduler's view.  slog.New(h) becomes slog.New(rt.GateHandler(h)): the same
	// serialisation, by a lock the scheduler emulates.
	ast.Inspect(f, func(n ast.Node) bool {
		call, ok := n.(*ast.CallExpr)
		if !ok || len(call.Args) != 1 {
			return true
		}
		if isPkgCall(call, "slog", "New") != nil {
			call.Args[0] = rtCall("GateHandler", call.Args[0])
			c.changed = true
			c.counts["slog.New"]++
		}
		return true
	})
	if c.changed {
		spec := &ast.ImportSpec{Name: ast.NewIdent(rtName), Path: &ast.BasicLit{Kind: token.STRING, Value: strconv.Quote(rtPath)}}
		decl := &ast.GenDecl{Tok: token.IMPORT, Specs: []ast.Spec{spec}}
		f.Decls = append([]ast.Decl{decl}, f.Decls...)
		f.Imports = append(f.Imports, spec)
		if c.timeRewritten {
			// keep "time" used
			f.Decls = append(f.Decls, &ast.GenDecl{Tok: token.VAR, Specs: []ast.Spec{&ast.ValueSpec{Names: []*ast.Ident{ast.NewIdent("_")}, Values: []ast.Expr{&ast.SelectorExpr{X: ast.NewIdent("time"), Sel: ast.NewIdent("Now")}}}}})
		}
		if c.netRewritten {
			// keep "net" used
			f.Decls = append(f.Decls, &ast.GenDecl{Tok: token.VAR, Specs: []ast.Spec{&ast.ValueSpec{Names: []*ast.Ident{ast.NewIdent("_")}, Values: []ast.Expr{&ast.SelectorExpr{X: ast.NewIdent("net"), Sel: ast.NewIdent("IPv4len")}}}}})
		}
		if c.httpRewritten {
			// keep "net/http" used
			f.Decls = append(f.Decls, &ast.GenDecl{Tok: token.VAR, Specs: []ast.Spec{&ast.ValueSpec{Names: []*ast.Ident{ast.NewIdent("_")}, Values: []ast.Expr{&ast.SelectorExpr{X: ast.NewIdent("http"), Sel: ast.NewIdent("StatusOK")}}}}})
		}
		if usesOS {
			// keep "os" used
			f.Decls = append(f.Decls, &ast.GenDecl{Tok: token.VAR, Specs: []ast.Spec{&ast.ValueSpec{Names: []*ast.Ident{ast.NewIdent("_")}, Values: []ast.Expr{&ast.SelectorExpr{X: ast.NewIdent("os"), Sel: ast.NewIdent("Getpid")}}}}})
		}
	}
}

// Result of instrumenting a tree.
type Result struct {
	Overlay map[string]string // original path -> instrumented copy
	Counts  map[string]int
	Files   []string // instrumented, repo-relative
	Skipped []string // could not be parsed / printed
}

// namedChanTypes finds `type X chan T` declarations in a package directory.
func namedChanTypes(files []*ast.File) map[string]bool {
	m := map[string]bool{}
	for _, f := range files {
		for _, d := range f.Decls {
			gd, ok := d.(*ast.GenDecl)
			if !ok || gd.Tok != token.TYPE {
				continue
			}
			for _, sp := range gd.Specs {
				ts := sp.(*ast.TypeSpec)
				if _, ok := ts.Type.(*ast.ChanType); ok {
					m[ts.Name.Name] = true
				}
			}
		}
	}
	return m
}

// ResetFile generates a test file for the package in dir with one function,
// vsimReset, that puts the package's simple global variables (those declared
// with a literal initialiser, and pointer variables declared without one) back
// to their initial values.  A simulated run stands for one process; the flags
// a program keeps in package variables must not leak from one run into the next.
func ResetFile(dir, out string) (string, error) {
	fset := token.NewFileSet()
	ents, err := os.ReadDir(dir)
	if err != nil {
		return "", err
	}
	pkg := ""
	var lines []string
	netListen, netDial, netForeign := 0, 0, 0
	for _, e := range ents {
		n := e.Name()
		if e.IsDir() || !strings.HasSuffix(n, ".go") || strings.HasSuffix(n, "_test.go") {
			continue
		}
		raw, err := os.ReadFile(filepath.Join(dir, n))
		if err != nil {
			continue
		}
		f, err := parser.ParseFile(fset, filepath.Join(dir, n), raw, 0)
		if err != nil {
			continue
		}
		if pkg == "" {
			pkg = f.Name.Name
		}
		head := string(raw[:fset.Position(f.Package).Offset])
		if strings.Contains(head, "//go:build") || strings.Contains(head, "+build") || strings.Contains(n, "_windows") || strings.Contains(n, "_darwin") {
			continue // may not be part of this build
		}
		ast.Inspect(f, func(n ast.Node) bool {
			sel, ok := n.(*ast.SelectorExpr)
			if !ok {
				return true
			}
			if id, ok := sel.X.(*ast.Ident); ok && id.Name == "net" && id.Obj == nil {
				switch sel.Sel.Name {
				case "Listen":
					netListen++
				case "Dial", "DialTimeout":
					netDial++
				case "ListenTCP", "ListenUnix", "ListenPacket", "ListenUDP", "ListenIP", "DialTCP", "DialUnix", "DialUDP", "DialIP", "Dialer", "ListenConfig", "FileListener", "FileConn":
					netForeign++
				}
			}
			return true
		})
		for _, d := range f.Decls {
			gd, ok := d.(*ast.GenDecl)
			if !ok || gd.Tok != token.VAR {
				continue
			}
			for _, sp := range gd.Specs {
				vs := sp.(*ast.ValueSpec)
				if len(vs.Values) == 0 {
					if _, ok := vs.Type.(*ast.StarExpr); ok {
						for _, nm := range vs.Names {
							if nm.Name != "_" {
								lines = append(lines, nm.Name+" = nil")
							}
						}
					}
					continue
				}
				if len(vs.Values) != len(vs.Names) {
					continue
				}
				for i, v := range vs.Values {
					lit := ""
					switch x := v.(type) {
					case *ast.BasicLit:
						lit = x.Value
					case *ast.Ident:
						if x.Name == "true" || x.Name == "false" {
							lit = x.Name
						}
					case *ast.UnaryExpr:
						if b, ok := x.X.(*ast.BasicLit); ok && (x.Op == token.SUB || x.Op == token.ADD) {
							lit = x.Op.String() + b.Value
						}
					}
					if lit != "" && vs.Names[i].Name != "_" {
						lines = append(lines, vs.Names[i].Name+" = "+lit)
					}
				}
			}
		}
	}
	if pkg == "" {
		return "", fmt.Errorf("no package in %s", dir)
	}
	sort.Strings(lines)
	src := "package " + pkg + "\n\nfunc vsimReset() {\n"
	for _, l := range lines {
		src += "\t" + l + "\n"
	}
	src += "}\n"
	// the network seam is usable for this package when its plain-TCP listening and
	// dialling go through net.Listen / net.Dial (which the rewriter redirects) and
	// through nothing the rewriter does not know
	src += fmt.Sprintf("\nvar vsimNetSeam = %v\n", netListen > 0 && netDial > 0 && netForeign == 0)
	if err := os.MkdirAll(filepath.Dir(out), 0o755); err != nil {
		return "", err
	}
	return src, os.WriteFile(out, []byte(src), 0o644)
}

// DaemonFuncs names methods that run for ever as service goroutines; `go x.f()`
// of one of them becomes rt.GoDaemon.  Only set while a dependency is instrumented.
var DaemonFuncs = map[string]bool{}

// DiskSeam makes a private copy of the github.com/goblimey/go-tools module (as
// the module under test resolves it) in which the two packages that stand
// between the programs and their daily files (dailylogger, switchwriter) are
// instrumented, so that the simulator owns the disk: locks and the rotation
// goroutine go through the scheduler, and every file the daily writer opens is
// handed to rt.WrapFile, where a harness can put a simulated disk in front of
// it.  The scratch go.mod then replaces the module by the copy (files in the
// module cache cannot be overlaid, and are not touched).  When the source does
// not look as expected ok is false and nothing is replaced.
func DiskSeam(modDir, repoGoMod, out string) (copyDir string, ok bool, err error) {
	copyDir = filepath.Join(out, "go-tools")
	const hook = "dw.switchwriter.SwitchTo(logFile)"
	err = filepath.Walk(modDir, func(p string, info os.FileInfo, err error) error {
		if err != nil {
			return err
		}
		rel, _ := filepath.Rel(modDir, p)
		dst := filepath.Join(copyDir, rel)
		if info.IsDir() {
			return os.MkdirAll(dst, 0o755)
		}
		if strings.HasSuffix(p, "_test.go") || !info.Mode().IsRegular() {
			return nil
		}
		b, err := os.ReadFile(p)
		if err != nil {
			return err
		}
		return os.WriteFile(dst, b, 0o644)
	})
	if err != nil {
		return "", false, err
	}
	wp := filepath.Join(copyDir, "dailylogger", "writer.go")
	b, rerr := os.ReadFile(wp)
	if rerr != nil || strings.Count(string(b), hook) != 1 || !strings.Contains(string(b), "go dw.logRotator()") {
		return "", false, nil
	}
	if _, serr := os.Stat(filepath.Join(copyDir, "switchwriter")); serr != nil {
		return "", false, nil
	}
	b = []byte(strings.Replace(string(b), hook, "dw.switchwriter.SwitchTo(vsimWrap(pathname, logFile))", 1))
	if err := os.WriteFile(wp, b, 0o644); err != nil {
		return "", false, err
	}
	wrap := "package dailylogger\n\nimport (\n\t\"io\"\n\t\"os\"\n\n\t\"verif/vsim/rt\"\n)\n\nfunc vsimWrap(name string, f *os.File) io.Writer { return rt.WrapFile(name, f) }\n"
	if err := os.WriteFile(filepath.Join(copyDir, "dailylogger", "zz_vsim_wrap.go"), []byte(wrap), 0o644); err != nil {
		return "", false, err
	}
	// instrument the two packages (same timer semantics as the module under test)
	stage := filepath.Join(out, "dep")
	for _, pkg := range []string{"dailylogger", "switchwriter", "statusreporter"} {
		os.MkdirAll(filepath.Join(stage, pkg), 0o755)
		ents, _ := os.ReadDir(filepath.Join(copyDir, pkg))
		for _, e := range ents {
			if e.IsDir() || !strings.HasSuffix(e.Name(), ".go") {
				continue
			}
			b, _ := os.ReadFile(filepath.Join(copyDir, pkg, e.Name()))
			os.WriteFile(filepath.Join(stage, pkg, e.Name()), b, 0o644)
		}
	}
	if b, err := os.ReadFile(repoGoMod); err == nil {
		for _, line := range strings.Split(string(b), "\n") {
			if f := strings.Fields(line); len(f) == 2 && f[0] == "go" {
				os.WriteFile(filepath.Join(stage, "go.mod"), []byte("module dep\n\n"+line+"\n"), 0o644)
			}
		}
	}
	DaemonFuncs = map[string]bool{"logRotator": true}
	defer func() { DaemonFuncs = map[string]bool{} }()
	res, err := Tree(stage, filepath.Join(out, "depout"), nil)
	if err != nil {
		return "", false, err
	}
	if len(res.Skipped) > 0 {
		return "", false, nil
	}
	for from, to := range res.Overlay {
		rel, _ := filepath.Rel(stage, from)
		b, err := os.ReadFile(to)
		if err != nil {
			return "", false, err
		}
		if err := os.WriteFile(filepath.Join(copyDir, rel), b, 0o644); err != nil {
			return "", false, err
		}
	}
	return copyDir, true, nil
}

// Tree instruments every non-test Go file below repo (skipping the directories
// in skip) and writes the copies below out/src.
func Tree(repo, out string, exclude map[string]bool) (*Result, error) {
	res := &Result{Overlay: map[string]string{}, Counts: map[string]int{}}
	LegacyTimers = true
	if b, err := os.ReadFile(filepath.Join(repo, "go.mod")); err == nil {
		for _, line := range strings.Split(string(b), "\n") {
			f := strings.Fields(line)
			if len(f) == 2 && f[0] == "go" {
				var maj, min int
				fmt.Sscanf(f[1], "%d.%d", &maj, &min)
				if maj > 1 || (maj == 1 && min >= 23) {
					LegacyTimers = false // the module opted into the new timer semantics, which synctest provides
				}
			}
		}
	}
	byDir := map[string][]string{}
	err := filepath.Walk(repo, func(p string, info os.FileInfo, err error) error {
		if err != nil {
			return err
		}
		if info.IsDir() {
			b := filepath.Base(p)
			if p != repo && (strings.HasPrefix(b, ".") || b == "testdata" || b == "vendor") {
				return filepath.SkipDir
			}
			return nil
		}
		if strings.HasSuffix(p, ".go") && !strings.HasSuffix(p, "_test.go") {
			byDir[filepath.Dir(p)] = append(byDir[filepath.Dir(p)], p)
		}
		return nil
	})
	if err != nil {
		return nil, err
	}
	var dirs []string
	for d := range byDir {
		dirs = append(dirs, d)
	}
	sort.Strings(dirs)
	for _, dir := range dirs {
		relDir, _ := filepath.Rel(repo, dir)
		relDir = filepath.ToSlash(relDir)
		fset := token.NewFileSet()
		var parsed []*ast.File
		var names []string
		sort.Strings(byDir[dir])
		for _, fn := range byDir[dir] {
			rel, _ := filepath.Rel(repo, fn)
			if exclude[filepath.ToSlash(rel)] {
				continue
			}
			f, err := parser.ParseFile(fset, fn, nil, parser.ParseComments)
			if err != nil {
				res.Skipped = append(res.Skipped, filepath.ToSlash(rel)+": "+err.Error())
				continue
			}
			parsed = append(parsed, f)
			names = append(names, fn)
		}
		ct := namedChanTypes(parsed)
		pkgID := rt.PkgIDs[relDir]
		if pkgID == 0 && strings.HasPrefix(relDir, "apps/") {
			pkgID = rt.PkgApps
		}
		for i, f := range parsed {
			fn := names[i]
			rel, _ := filepath.Rel(repo, fn)
			rel = filepath.ToSlash(rel)
			c := &ctx{fset: fset, rel: rel, pkgID: pkgID, stmtG: StmtPkgs[relDir], fnG: FnPkgs[relDir], counts: map[string]int{}, chanName: map[string]bool{}, chanType: ct}
			// keep //go: directives and build constraints that precede the package clause
			var head []string
			for _, cg := range f.Comments {
				if cg.Pos() > f.Package {
					break
				}
				for _, cm := range cg.List {
					if strings.HasPrefix(cm.Text, "//go:build") || strings.HasPrefix(cm.Text, "// +build") {
						head = append(head, cm.Text)
					}
				}
			}
			c.file(f)
			if !c.changed {
				continue
			}
			f.Comments = nil
			f.Doc = nil
			for _, d := range f.Decls {
				switch x := d.(type) {
				case *ast.FuncDecl:
					x.Doc = keepDirectives(x.Doc)
				case *ast.GenDecl:
					x.Doc = keepDirectives(x.Doc)
				}
			}
			var buf bytes.Buffer
			for _, h := range head {
				buf.WriteString(h + "\n")
			}
			if len(head) > 0 {
				buf.WriteString("\n")
			}
			if err := printer.Fprint(&buf, token.NewFileSet(), f); err != nil {
				res.Skipped = append(res.Skipped, rel+": print: "+err.Error())
				continue
			}
			dst := filepath.Join(out, "src", rel)
			if err := os.MkdirAll(filepath.Dir(dst), 0o755); err != nil {
				return nil, err
			}
			if err := os.WriteFile(dst, buf.Bytes(), 0o644); err != nil {
				return nil, err
			}
			res.Overlay[fn] = dst
			res.Files = append(res.Files, rel)
			for k, v := range c.counts {
				res.Counts[k] += v
			}
		}
	}
	return res, nil
}

func keepDirectives(cg *ast.CommentGroup) *ast.CommentGroup {
	if cg == nil {
		return nil
	}
	var keep []*ast.Comment
	for _, c := range cg.List {
		if strings.HasPrefix(c.Text, "//go:") {
			keep = append(keep, &ast.Comment{Text: c.Text})
		}
	}
	if len(keep) == 0 {
		return nil
	}
	return &ast.CommentGroup{List: keep}
}

// WriteOverlay writes overlay.json with the given replacements plus extra ones.
func WriteOverlay(path string, repl map[string]string) error {
	b, err := json.MarshalIndent(map[string]any{"Replace": repl}, "", " ")
	if err != nil {
		return err
	}
	return os.WriteFile(path, b, 0o644)
}
