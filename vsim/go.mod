module verif/vsim

go 1.26

require github.com/anishathalye/porcupine v1.3.0
