// vcheck is the driver of the vsim checks: it instruments the current working
// tree of the repository into an overlay, builds the harness binaries with
// go1.26.8, runs seeded simulation workers in parallel, confirms every
// violation by replaying its minimised tape in a fresh process, matches known
// findings and writes the evidence file.
//
//	vcheck run <property> [--tier quick|thorough]
//	vcheck replay <file>
//	vcheck build
//	vcheck selftest [--tier quick|thorough]
//
// Exit status: 0 property held on everything explored; 1 violation (printed as
// "VIOLATION property=<id> replay=<path>"); 2 infrastructure trouble (build,
// watchdog, nondeterminism, replay divergence) — never reported as a violation.
package main

import (
	"bufio"
	"crypto/sha256"
	"encoding/binary"
	"encoding/hex"
	"encoding/json"
	"fmt"
	"io"
	"os"
	"os/exec"
	"os/signal"
	"path/filepath"
	"sort"
	"strconv"
	"strings"
	"sync"
	"syscall"
	"time"

	"verif/vsim/instr"
)

type propDef struct {
	ID        string
	Harness   string   // "lib" or app name
	Also      []string // further harness binaries that serve the same property
	Quick     int      // runs
	Thorough  int
	Batch     int
	QuickWall int // seconds (simulation phase)
	ThorWall  int
	RaceLane  bool
	Rule      string
	Real      []string
	Stub      []string
}

var repoDir = envOr("VCHECK_REPO", "/repo")
var verifDir = envOr("VCHECK_VERIF", "/verif")

const goBin = "go1.26.8"

func envOr(k, d string) string {
	if v := os.Getenv(k); v != "" {
		return v
	}
	return d
}

var harnesses = map[string]string{
	// name -> package path (import path to hand to `go test -c`)
	"lib":          "verif/vsim/harness/lib",
	"displayrtcm3": "github.com/goblimey/go-ntrip/apps/displayrtcm3",
	"rtcmfilter":   "github.com/goblimey/go-ntrip/apps/rtcmfilter",
	"rtcmlogger":   "github.com/goblimey/go-ntrip/apps/rtcmlogger",
	"proxy":        "github.com/goblimey/go-ntrip/apps/proxy",
}

var harnessDirs = map[string]string{
	"displayrtcm3": "apps/displayrtcm3",
	"rtcmfilter":   "apps/rtcmfilter",
	"rtcmlogger":   "apps/rtcmlogger",
	"proxy":        "apps/proxy",
}

// scratch directories (outside /repo and /verif) are removed on every way out,
// including die().
var scratchDirs []string
var scratchMu sync.Mutex

func newScratch(pattern string) string {
	d, err := os.MkdirTemp("", pattern)
	if err != nil {
		fmt.Fprintf(os.Stderr, "vcheck: mktemp: %v\n", err)
		os.Exit(2)
	}
	scratchMu.Lock()
	scratchDirs = append(scratchDirs, d)
	scratchMu.Unlock()
	return d
}

func cleanupScratch() {
	scratchMu.Lock()
	defer scratchMu.Unlock()
	for _, d := range scratchDirs {
		os.RemoveAll(d)
	}
	scratchDirs = nil
}

func die(code int, format string, a ...any) {
	fmt.Fprintf(os.Stderr, "vcheck: "+format+"\n", a...)
	cleanupScratch()
	os.Exit(code)
}

func goEnv() []string {
	env := os.Environ()
	env = append(env, "GOFLAGS=-mod=mod", "GOPROXY=off", "GOSUMDB=off", "GOTOOLCHAIN=local", "GONOSUMDB=*", "GONOSUMCHECK=1", "GOFLAGS=-mod=mod")
	return env
}

// fingerprint hashes every input of the build: the repository's Go files and
// module files, and the simulator sources.
func fingerprint() string {
	h := sha256.New()
	add := func(root string, pred func(string) bool) {
		var files []string
		filepath.Walk(root, func(p string, info os.FileInfo, err error) error {
			if err != nil {
				return nil
			}
			if info.IsDir() {
				b := filepath.Base(p)
				if p != root && strings.HasPrefix(b, ".") {
					return filepath.SkipDir
				}
				return nil
			}
			if pred(p) {
				files = append(files, p)
			}
			return nil
		})
		sort.Strings(files)
		for _, f := range files {
			b, err := os.ReadFile(f)
			if err != nil {
				continue
			}
			rel, _ := filepath.Rel(root, f)
			fmt.Fprintf(h, "%s %d\n", rel, len(b))
			h.Write(b)
		}
	}
	add(repoDir, func(p string) bool {
		return strings.HasSuffix(p, ".go") || strings.HasSuffix(p, "go.mod") || strings.HasSuffix(p, "go.sum")
	})
	add(filepath.Join(verifDir, "vsim"), func(p string) bool {
		return strings.HasSuffix(p, ".go") || strings.HasSuffix(p, "go.mod") || strings.HasSuffix(p, "go.sum")
	})
	return hex.EncodeToString(h.Sum(nil))[:20]
}

type buildInfo struct {
	Fingerprint string         `json:"fingerprint"`
	Files       []string       `json:"instrumented_files"`
	Counts      map[string]int `json:"sites"`
	Skipped     []string       `json:"skipped"`
	Degraded    []string       `json:"degraded_files"`
	BuildS      float64        `json:"build_s"`
	Harnesses   []string       `json:"harnesses"`
	DiskSeam    bool           `json:"disk_seam"`
}

// dropDiskSeam is set when a build with the instrumented dependency failed:
// the retry goes without it (no simulated disk, everything else unchanged).
var dropDiskSeam bool

// droppedOptional names optional harness files (zz_vsim_opt_*_test.go) that did
// not compile against the program under test.
var droppedOptional = map[string]bool{}

func cacheDir(fp string) string { return filepath.Join(verifDir, ".cache", fp) }

// ensureBuilt builds (or finds in the cache) the harness binaries for the
// current trees.  Returns the cache directory.
func ensureBuilt(names []string, race bool) (string, *buildInfo) {
	fp := fingerprint()
	dir := cacheDir(fp)
	os.MkdirAll(dir, 0o755)
	now := time.Now()
	os.Chtimes(dir, now, now)
	// serialise builds of the same fingerprint
	lock, err := os.OpenFile(filepath.Join(verifDir, ".cache", "lock"), os.O_CREATE|os.O_RDWR, 0o644)
	if err == nil {
		syscall.Flock(int(lock.Fd()), syscall.LOCK_EX)
		defer func() { syscall.Flock(int(lock.Fd()), syscall.LOCK_UN); lock.Close() }()
	}
	info := &buildInfo{Fingerprint: fp}
	infoPath := filepath.Join(dir, "build.json")
	if b, err := os.ReadFile(infoPath); err == nil {
		json.Unmarshal(b, info)
	}
	suffix := ".test"
	if race {
		suffix = ".race.test"
	}
	var need []string
	for _, n := range names {
		if _, err := os.Stat(filepath.Join(dir, n+suffix)); err != nil {
			need = append(need, n)
		}
	}
	if len(need) == 0 {
		return dir, info
	}
	pruneCache(fp)
	t0 := time.Now()
	scratch := newScratch("vsim-build-")
	defer os.RemoveAll(scratch)
	exclude := map[string]bool{}
	for attempt := 0; ; attempt++ {
		os.RemoveAll(filepath.Join(scratch, "src"))
		res, err := instr.Tree(repoDir, scratch, exclude)
		if err != nil {
			die(2, "instrumentation failed: %v", err)
		}
		overlay := map[string]string{}
		for k, v := range res.Overlay {
			overlay[k] = v
		}
		for n, d := range harnessDirs {
			src := filepath.Join(verifDir, "vsim", "harness", "apps", n, "zz_vsim_test.go")
			if _, err := os.Stat(src); err == nil {
				overlay[filepath.Join(repoDir, d, "zz_vsim_test.go")] = src
				// package variables back to their initial values at the start of a run
				rf := filepath.Join(scratch, "reset", n, "zz_vsim_reset_test.go")
				if _, err := instr.ResetFile(filepath.Join(repoDir, d), rf); err != nil {
					die(2, "reset file for %s: %v", d, err)
				}
				overlay[filepath.Join(repoDir, d, "zz_vsim_reset_test.go")] = rf
				// optional harness files (zz_vsim_opt_*_test.go): each is dropped when it
				// does not compile against a changed program
				if ents, err := os.ReadDir(filepath.Join(verifDir, "vsim", "harness", "apps", n)); err == nil {
					for _, e := range ents {
						if nm := e.Name(); strings.HasPrefix(nm, "zz_vsim_opt_") && strings.HasSuffix(nm, "_test.go") && !droppedOptional[nm] {
							overlay[filepath.Join(repoDir, d, nm)] = filepath.Join(verifDir, "vsim", "harness", "apps", n, nm)
						}
					}
				}
			}
		}
		// scratch go.mod / go.sum
		mod, err := os.ReadFile(filepath.Join(repoDir, "go.mod"))
		if err != nil {
			die(2, "read go.mod: %v", err)
		}
		mod = append(mod, []byte(fmt.Sprintf("\nrequire verif/vsim v0.0.0\nrequire github.com/anishathalye/porcupine v1.3.0\nreplace verif/vsim => %s\n", filepath.Join(verifDir, "vsim")))...)
		os.WriteFile(filepath.Join(scratch, "go.mod"), mod, 0o644)
		sum, _ := os.ReadFile(filepath.Join(repoDir, "go.sum"))
		sum2, _ := os.ReadFile(filepath.Join(verifDir, "vsim", "go.sum"))
		os.WriteFile(filepath.Join(scratch, "go.sum"), append(append(sum, '\n'), sum2...), 0o644)
		// the disk seam: the daily-file packages of the go-tools dependency, as the
		// module under test resolves it, instrumented into the same overlay
		info.DiskSeam = false
		if attempt == 0 || !dropDiskSeam {
			lc := exec.Command(goBin, "list", "-modfile="+filepath.Join(scratch, "go.mod"), "-m", "-f", "{{.Dir}}", "github.com/goblimey/go-tools")
			lc.Dir = repoDir
			lc.Env = goEnv()
			if b, err := lc.Output(); err == nil && strings.TrimSpace(string(b)) != "" {
				cp, ok, err := instr.DiskSeam(strings.TrimSpace(string(b)), filepath.Join(repoDir, "go.mod"), scratch)
				if err != nil {
					die(2, "disk seam: %v", err)
				}
				if ok {
					mod = append(mod, []byte(fmt.Sprintf("replace github.com/goblimey/go-tools => %s\n", cp))...)
					os.WriteFile(filepath.Join(scratch, "go.mod"), mod, 0o644)
					info.DiskSeam = true
				}
			}
		}
		ov := filepath.Join(scratch, "overlay.json")
		if err := instr.WriteOverlay(ov, overlay); err != nil {
			die(2, "overlay: %v", err)
		}

		var wg sync.WaitGroup
		errs := make([]string, len(need))
		sem := make(chan struct{}, 3)
		for i, n := range need {
			wg.Add(1)
			go func(i int, n string) {
				defer wg.Done()
				sem <- struct{}{}
				defer func() { <-sem }()
				args := []string{"test", "-c", "-vet=off", "-tags", "verif", "-modfile=" + filepath.Join(scratch, "go.mod"), "-overlay=" + ov,
					"-o", filepath.Join(scratch, n+suffix)}
				if race {
					args = append(args, "-race")
				}
				args = append(args, harnesses[n])
				cmd := exec.Command(goBin, args...)
				cmd.Dir = repoDir
				cmd.Env = goEnv()
				out, err := cmd.CombinedOutput()
				if err != nil {
					errs[i] = string(out) + "\n" + err.Error()
				}
			}(i, n)
		}
		wg.Wait()
		failed := ""
		for _, e := range errs {
			if e != "" {
				failed += e
			}
		}
		if failed == "" {
			for _, n := range need {
				if err := copyFile(filepath.Join(scratch, n+suffix), filepath.Join(dir, n+suffix)); err != nil {
					die(2, "copy binary: %v", err)
				}
			}
			info.Files, info.Counts, info.Skipped = res.Files, res.Counts, res.Skipped
			have := map[string]bool{}
			for _, h := range info.Harnesses {
				have[h] = true
			}
			for _, n := range need {
				if !have[n+suffix] {
					info.Harnesses = append(info.Harnesses, n+suffix)
				}
			}
			info.BuildS += time.Since(t0).Seconds()
			b, _ := json.MarshalIndent(info, "", " ")
			os.WriteFile(infoPath, b, 0o644)
			return dir, info
		}
		// degrade: drop instrumented files named in the compiler output and retry
		dropped := false
		srcPrefix := filepath.Join(scratch, "src") + string(filepath.Separator)
		for _, line := range strings.Split(failed, "\n") {
			if i := strings.Index(line, srcPrefix); i >= 0 {
				rest := line[i+len(srcPrefix):]
				if j := strings.Index(rest, ".go:"); j >= 0 {
					rel := rest[:j+3]
					if !exclude[rel] {
						exclude[rel] = true
						info.Degraded = append(info.Degraded, rel)
						dropped = true
					}
				}
			}
		}
		if !dropped {
			for _, line := range strings.Split(failed, "\n") {
				if i := strings.Index(line, "zz_vsim_opt_"); i >= 0 {
					if j := strings.Index(line[i:], "_test.go"); j >= 0 {
						nm := line[i : i+j+len("_test.go")]
						if !droppedOptional[nm] {
							droppedOptional[nm] = true
							dropped = true
							info.Degraded = append(info.Degraded, "optional harness file "+nm+" (the program no longer fits it)")
						}
					}
				}
			}
		}
		if !dropped && info.DiskSeam && !dropDiskSeam && (strings.Contains(failed, "/dep/") || strings.Contains(failed, "/depout/") || strings.Contains(failed, "go-tools")) {
			dropDiskSeam, dropped = true, true
			info.Degraded = append(info.Degraded, "go-tools disk seam")
		}
		if !dropped || attempt >= 3 {
			fmt.Fprintln(os.Stderr, failed)
			die(2, "harness build failed (not a property violation)")
		}
		fmt.Fprintf(os.Stderr, "vcheck: instrumented build failed, retrying with %v un-instrumented; compiler said:\n%s\n", info.Degraded, tail(failed, 1500))
	}
}

func copyFile(src, dst string) error {
	in, err := os.Open(src)
	if err != nil {
		return err
	}
	defer in.Close()
	tmp := dst + ".tmp"
	out, err := os.OpenFile(tmp, os.O_CREATE|os.O_WRONLY|os.O_TRUNC, 0o755)
	if err != nil {
		return err
	}
	if _, err := io.Copy(out, in); err != nil {
		out.Close()
		return err
	}
	out.Close()
	return os.Rename(tmp, dst)
}

// pruneCache keeps the current fingerprint, the six most recently used others,
// and anything used in the last 45 minutes (another check may be running from it).
func pruneCache(keep string) {
	base := filepath.Join(verifDir, ".cache")
	ents, _ := os.ReadDir(base)
	type e struct {
		name string
		mod  time.Time
	}
	var es []e
	for _, en := range ents {
		if !en.IsDir() || en.Name() == keep {
			continue
		}
		fi, err := en.Info()
		if err == nil {
			es = append(es, e{en.Name(), fi.ModTime()})
		}
	}
	sort.Slice(es, func(i, j int) bool { return es[i].mod.After(es[j].mod) })
	for i, x := range es {
		if i >= 6 && time.Since(x.mod) > 45*time.Minute {
			os.RemoveAll(filepath.Join(base, x.name))
		}
	}
}

// ---- worker summaries (mirror of hx.Summary) ----------------------------------------

type violation struct {
	Class     string   `json:"class"`
	Msg       string   `json:"msg"`
	RunIdx    uint64   `json:"run_idx"`
	Seed      uint64   `json:"run_seed"`
	Scen      []uint32 `json:"scen"`
	Dyn       []uint32 `json:"dyn"`
	EventHash uint64   `json:"event_hash"`
	Reruns    int      `json:"minimise_reruns"`
	OrigCells int      `json:"orig_cells"`
	OrigScen  []uint32 `json:"orig_scen,omitempty"`
	OrigDyn   []uint32 `json:"orig_dyn,omitempty"`
	BatchFrom uint64   `json:"batch_from"`
	Harness   string   `json:"harness"`
}

type summary struct {
	Prop           string             `json:"prop"`
	Runs           int                `json:"runs"`
	Skipped        int                `json:"skipped"`
	Abandoned      int                `json:"abandoned"`
	Nontrivial     int                `json:"nontrivial"`
	Steps          int64              `json:"steps"`
	Switches       int64              `json:"switches"`
	SimTimeNs      int64              `json:"sim_time_ns"`
	GNSSWeeks      float64            `json:"gnss_weeks"`
	Probes         map[string]int     `json:"probes"`
	Faults         map[string]int     `json:"faults"`
	FaultRuns      map[string]int     `json:"fault_runs"`
	Strategies     map[string]int     `json:"strategies"`
	Verdicts       map[string]int     `json:"verdicts"`
	Samples        []json.RawMessage  `json:"samples"`
	Violations     []violation        `json:"violations"`
	ClassCounts    map[string]int     `json:"class_counts"`
	Infra          []string           `json:"infra"`
	NonDet         []string           `json:"nondeterminism"`
	NonDetSelect   int                `json:"nondeterminism_runtime_select"`
	NonDetSelectAt []string           `json:"nondeterminism_runtime_select_at"`
	NonDetHistory  int                `json:"nondeterminism_process_history"`
	DetChecked     int                `json:"determinism_checked"`
	DetFailed      int                `json:"determinism_failed"`
	MaxSteps       int                `json:"max_steps"`
	WallS          float64            `json:"wall_s"`
	HashFile       string             `json:"hash_file"`
	DistinctSch    int                `json:"distinct_schedules"`
	Extra          map[string]float64 `json:"extra"`
}

type replayFile struct {
	Property  string   `json:"property"`
	Class     string   `json:"class"`
	Msg       string   `json:"msg"`
	Tier      string   `json:"tier"`
	CheckSeed uint64   `json:"check_seed"`
	RunIdx    uint64   `json:"run_idx"`
	RunSeed   uint64   `json:"run_seed"`
	Scen      []uint32 `json:"scen_tape"`
	Dyn       []uint32 `json:"dyn_tape"`
	EventHash uint64   `json:"event_hash"`
	TreeFP    string   `json:"tree_fingerprint"`
	Engine    string   `json:"engine"`
	Harness   string   `json:"harness"`
	History   *history `json:"history_replay,omitempty"`
	Scenario  any      `json:"scenario,omitempty"`
	Faults    any      `json:"faults,omitempty"`
	Schedule  []string `json:"schedule_and_events,omitempty"`
	Minimise  string   `json:"minimisation,omitempty"`
}

// history: the violation depends on state left in the worker process by earlier
// runs (a package-level cache, a reused buffer): it is reproduced by re-executing
// the runs From..RunIdx of the same check seed in one fresh process.
type history struct {
	From   uint64 `json:"from_run_idx"`
	RunIdx uint64 `json:"failing_run_idx"`
	Note   string `json:"note"`
}

// historyReplay re-executes runs from..idx in a fresh worker and reports whether a
// violation of the class shows at run idx.
func historyReplay(bin string, p *propDef, tier string, seed, from, idx uint64, class, scratch string) (bool, string) {
	ok, msg, at := historyScan(bin, p, tier, seed, from, idx-from+1, class, scratch)
	return ok && at == idx, msg
}

// historyDeadline bounds all history replays of one check (they re-execute whole
// batches): when it has passed, remaining unreproduced alarms stay unreported.
var historyDeadline = time.Now().Add(5 * time.Minute)

// historyScan executes count runs starting at from in a fresh worker (no re-runs,
// no minimisation, so the process history is exactly those runs) and returns the
// first violation of the class.
func historyScan(bin string, p *propDef, tier string, seed, from, count uint64, class, scratch string) (bool, string, uint64) {
	out := filepath.Join(scratch, "hist.json")
	os.Remove(out)
	runDir := filepath.Join(scratch, "hist")
	os.MkdirAll(runDir, 0o755)
	if time.Now().After(historyDeadline) {
		return false, "", 0
	}
	cmd := workerCmd(bin, runDir, map[string]string{"VSIM_PROP": p.ID, "VSIM_TIER": tier, "VERIF_SEED": strconv.FormatUint(seed, 10), "VSIM_FROM": strconv.FormatUint(from, 10),
		"VSIM_COUNT": strconv.FormatUint(count, 10), "VSIM_OUT": out, "VSIM_TMP": runDir, "VSIM_MAX_VIOL": "50", "VSIM_NO_MINIMISE": "1", "VSIM_DET_EVERY": "0", "VSIM_WALL_S": "90"})
	cmd.Run()
	b, err := os.ReadFile(out)
	if err != nil {
		return false, "", 0
	}
	var s summary
	if json.Unmarshal(b, &s) != nil {
		return false, "", 0
	}
	for _, v := range s.Violations {
		if v.Class == class {
			return true, v.Msg, v.RunIdx
		}
	}
	return false, "", 0
}

type knownFinding struct {
	Status   string `json:"status"` // open | fixed
	Property string `json:"property"`
	Class    string `json:"class"`
	Contains string `json:"msg_contains,omitempty"`
	Text     string `json:"text"`
	Commit   string `json:"commit,omitempty"`
}

func loadKnown() []knownFinding {
	f, err := os.Open(filepath.Join(verifDir, "known_findings.jsonl"))
	if err != nil {
		return nil
	}
	defer f.Close()
	var out []knownFinding
	sc := bufio.NewScanner(f)
	sc.Buffer(make([]byte, 1<<20), 1<<20)
	for sc.Scan() {
		line := strings.TrimSpace(sc.Text())
		if line == "" || strings.HasPrefix(line, "#") {
			continue
		}
		var k knownFinding
		if err := json.Unmarshal([]byte(line), &k); err != nil {
			die(2, "known_findings.jsonl: %v", err)
		}
		out = append(out, k)
	}
	return out
}

func workerCmd(bin, runDir string, env map[string]string) *exec.Cmd {
	cmd := exec.Command(bin, "-test.run", "^TestVsim$", "-test.timeout", "12h", "-test.count", "1")
	cmd.Dir = runDir
	e := os.Environ()
	e = append(e, "GODEBUG=asynctimerchan=0", "GOMAXPROCS="+envOr("VSIM_GOMAXPROCS", "1"))
	for k, v := range env {
		e = append(e, k+"="+v)
	}
	cmd.Env = e
	return cmd
}

func seedFromEnv() uint64 {
	v := os.Getenv("VERIF_SEED")
	if v == "" {
		return 1
	}
	n, err := strconv.ParseInt(v, 10, 64)
	if err != nil {
		die(2, "bad VERIF_SEED %q", v)
	}
	return uint64(n)
}

func main() {
	sig := make(chan os.Signal, 1)
	signal.Notify(sig, syscall.SIGINT, syscall.SIGTERM)
	go func() {
		<-sig
		cleanupScratch()
		os.Exit(2)
	}()
	defer cleanupScratch()
	if len(os.Args) < 2 {
		die(2, "usage: vcheck run <id> [--tier t] | replay <file> | build | selftest")
	}
	switch os.Args[1] {
	case "run":
		if len(os.Args) < 3 {
			die(2, "usage: vcheck run <id> [--tier quick|thorough]")
		}
		tier := envOr("VERIF_TIER", "quick")
		for i := 3; i < len(os.Args); i++ {
			if os.Args[i] == "--tier" && i+1 < len(os.Args) {
				tier = os.Args[i+1]
			}
		}
		code := runCheck(os.Args[2], tier)
		cleanupScratch()
		os.Exit(code)
	case "replay":
		if len(os.Args) < 3 {
			die(2, "usage: vcheck replay <file>")
		}
		code := replayCmd(os.Args[2])
		cleanupScratch()
		os.Exit(code)
	case "build":
		var names []string
		for n := range harnesses {
			if harnessAvailable(n) {
				names = append(names, n)
			}
		}
		sort.Strings(names)
		dir, info := ensureBuilt(names, false)
		ensureBuilt([]string{"lib"}, true) // the -race build of the auxiliary lane
		fmt.Printf("built %v (+ lib with -race) in %s (%.1fs total build time recorded)\n", names, dir, info.BuildS)
	case "selftest":
		tier := "quick"
		for i := 2; i < len(os.Args); i++ {
			if os.Args[i] == "--tier" && i+1 < len(os.Args) {
				tier = os.Args[i+1]
			}
		}
		code := selftest(tier)
		cleanupScratch()
		os.Exit(code)
	default:
		die(2, "unknown command %s", os.Args[1])
	}
}

func harnessAvailable(n string) bool {
	if n == "lib" {
		return true
	}
	_, err := os.Stat(filepath.Join(verifDir, "vsim", "harness", "apps", n, "zz_vsim_test.go"))
	return err == nil
}

func findProp(id string) *propDef {
	for i := range props {
		if props[i].ID == id {
			return &props[i]
		}
	}
	return nil
}

// terminationProps state that calls return / processing ends in bounded time.
var terminationProps = map[string]bool{"C02": true, "C07": true, "C09": true, "C11": true, "C13": true, "C16": true, "C19": true}

func (p *propDef) harnessList() []string { return append([]string{p.Harness}, p.Also...) }

type batchResult struct {
	harness string
	sum     *summary
	exit    int
	stderr  string
	dump    string
}

// runWorkers executes `total` runs in batches over W parallel worker processes.
func runWorkers(bin string, p *propDef, tier string, seed uint64, total, batch, wallS int, scratch string, fromOffset int) ([]batchResult, float64) {
	var extraEnv map[string]string
	W := 16
	if v := os.Getenv("VSIM_WORKERS"); v != "" {
		W, _ = strconv.Atoi(v)
	}
	if batch <= 0 {
		batch = 200
	}
	nb := (total + batch - 1) / batch
	var mu sync.Mutex
	next := 0
	results := make([]batchResult, 0, nb)
	t0 := time.Now()
	deadline := t0.Add(time.Duration(wallS) * time.Second)
	stop := false
	var wg sync.WaitGroup
	for w := 0; w < W; w++ {
		wg.Add(1)
		go func(w int) {
			defer wg.Done()
			for {
				mu.Lock()
				if next >= nb || stop || time.Now().After(deadline) {
					mu.Unlock()
					return
				}
				b := next
				next++
				mu.Unlock()
				out := filepath.Join(scratch, fmt.Sprintf("sum-%d.json", b))
				dump := filepath.Join(scratch, fmt.Sprintf("dump-%d.json", b))
				runDir := filepath.Join(scratch, fmt.Sprintf("w%d", w))
				os.MkdirAll(runDir, 0o755)
				cnt := batch
				if (b+1)*batch > total {
					cnt = total - b*batch
				}
				remain := int(time.Until(deadline).Seconds())
				if remain < 1 {
					remain = 1
				}
				env := map[string]string{"VSIM_PROP": p.ID, "VSIM_TIER": tier, "VERIF_SEED": strconv.FormatUint(seed, 10), "VSIM_FROM": strconv.Itoa(fromOffset + b*batch),
					"VSIM_COUNT": strconv.Itoa(cnt), "VSIM_STRIDE": "1", "VSIM_OUT": out, "VSIM_WALL_S": strconv.Itoa(remain), "VSIM_TMP": runDir,
					"VSIM_WATCHDOG_DUMP": dump, "VSIM_SAMPLES": "1"}
				if tier == "thorough" {
					env["VSIM_MIN_RERUNS"] = "3000"
				}
				for k, v := range extraEnv {
					env[k] = v
				}
				cmd := workerCmd(bin, runDir, env)
				var stderr strings.Builder
				cmd.Stderr = &stderr
				cmd.Stdout = &stderr
				err := cmd.Run()
				br := batchResult{stderr: tail(stderr.String(), 6000), dump: dump}
				if err != nil {
					if ee, ok := err.(*exec.ExitError); ok {
						br.exit = ee.ExitCode()
					} else {
						br.exit = 2
					}
				}
				if bs, err := os.ReadFile(out); err == nil {
					var s summary
					if json.Unmarshal(bs, &s) == nil {
						br.sum = &s
					}
				}
				mu.Lock()
				results = append(results, br)
				if br.exit != 0 || br.sum == nil || len(br.sum.Infra) > 0 {
					stop = true
				}
				if br.sum != nil && len(br.sum.Violations) > 0 && os.Getenv("VSIM_KEEP_GOING") == "" {
					stop = true
				}
				mu.Unlock()
			}
		}(w)
	}
	wg.Wait()
	return results, time.Since(t0).Seconds()
}

func tail(s string, n int) string {
	if len(s) <= n {
		return s
	}
	return "…" + s[len(s)-n:]
}

func runCheck(id, tier string) int {
	p := findProp(id)
	if p == nil {
		die(2, "unknown or unclaimed property %s", id)
	}
	if tier != "quick" && tier != "thorough" {
		die(2, "bad tier %s", tier)
	}
	t0 := time.Now()
	seed := seedFromEnv()
	evPath := filepath.Join(verifDir, "evidence", id+".json")
	if repoDir != "/repo" {
		// a run against some other tree (a seeded change, a scratch worktree) is not
		// evidence about /repo: keep the committed evidence files out of it
		evPath = filepath.Join(verifDir, "replays", "evidence-other-tree-"+id+".json")
		os.MkdirAll(filepath.Dir(evPath), 0o755)
	}
	os.MkdirAll(filepath.Dir(evPath), 0o755)
	os.Remove(evPath)
	dir, binfo := ensureBuilt(p.harnessList(), false)
	scratch := newScratch("vsim-run-")
	defer os.RemoveAll(scratch)

	total, wall := p.Quick, p.QuickWall
	if tier == "thorough" {
		total, wall = p.Thorough, p.ThorWall
	}
	if v := os.Getenv("VSIM_RUNS"); v != "" {
		total, _ = strconv.Atoi(v)
	}
	if v := os.Getenv("VSIM_WALL"); v != "" {
		wall, _ = strconv.Atoi(v)
	}
	known := loadKnown()
	var results []batchResult
	simWall := 0.0
	hl := p.harnessList()
	for hi, h := range hl {
		sub := filepath.Join(scratch, h)
		os.MkdirAll(sub, 0o755)
		rs, w := runWorkers(filepath.Join(dir, h+".test"), p, tier, seed, total/len(hl), p.Batch, wall/len(hl), sub, hi*10000000)
		for i := range rs {
			rs[i].harness = h
			if rs[i].sum != nil {
				for j := range rs[i].sum.Violations {
					rs[i].sum.Violations[j].Harness = h
				}
			}
		}
		results = append(results, rs...)
		simWall += w
	}

	// merge
	agg := &summary{Probes: map[string]int{}, Faults: map[string]int{}, FaultRuns: map[string]int{}, Strategies: map[string]int{}, Verdicts: map[string]int{}, ClassCounts: map[string]int{}}
	pairs := map[uint64]struct{}{}
	var infra, nondet, cpuLoops []string
	var viols []violation
	for _, br := range results {
		if br.exit == 3 {
			// A goroutine ran for 30 s of real time without reaching a yield point.  For
			// the properties that state termination this is a violation if (and only
			// if) the dumped tape stalls again in a fresh process.
			confirmed := false
			if terminationProps[id] {
				if b, err := os.ReadFile(br.dump); err == nil {
					var d struct {
						Scen []uint32 `json:"scen"`
						Dyn  []uint32 `json:"dyn"`
						Seed uint64   `json:"seed"`
					}
					if json.Unmarshal(b, &d) == nil {
						rf := replayFile{Property: id, Class: id + "/cpu-loop", Msg: "a goroutine of the code under test ran without ever reaching a scheduling point (endless loop): the run stalled twice, in the worker and in a fresh-process replay", Tier: tier, CheckSeed: seed,
							RunSeed: d.Seed, Scen: d.Scen, Dyn: d.Dyn, TreeFP: binfo.Fingerprint, Engine: "vsim-1", Harness: br.harness, Schedule: []string{tail(br.stderr, 4000)}}
						tmp := filepath.Join(scratch, "cpuloop-in.json")
						writeJSON(tmp, rf)
						if _, code, _ := replayOnceEnv(filepath.Join(dir, br.harness+".test"), p, tmp, scratch, map[string]string{"VSIM_WATCHDOG_S": "30"}); code == 3 {
							path := filepath.Join(verifDir, "replays", fmt.Sprintf("%s-%d-cpuloop-%s.json", id, seed, shortHash(fmt.Sprint(d.Scen))))
							os.MkdirAll(filepath.Dir(path), 0o755)
							writeJSON(path, rf)
							cpuLoops = append(cpuLoops, path)
							confirmed = true
						}
					}
				}
			}
			if !confirmed {
				infra = append(infra, "worker watchdog fired (a goroutine ran without reaching a yield point for 30 s of real time) and the stall did not reproduce: "+tail(br.stderr, 1500))
			}
			continue
		}
		if br.sum == nil {
			infra = append(infra, fmt.Sprintf("worker exited %d without a summary: %s", br.exit, tail(br.stderr, 3000)))
			continue
		}
		if br.exit != 0 {
			infra = append(infra, fmt.Sprintf("worker exited %d: %s", br.exit, tail(br.stderr, 3000)))
		}
		s := br.sum
		agg.Runs += s.Runs
		agg.Skipped += s.Skipped
		agg.Abandoned += s.Abandoned
		agg.Nontrivial += s.Nontrivial
		agg.Steps += s.Steps
		agg.Switches += s.Switches
		agg.SimTimeNs += s.SimTimeNs
		agg.GNSSWeeks += s.GNSSWeeks
		agg.DetChecked += s.DetChecked
		agg.DetFailed += s.DetFailed
		agg.NonDetSelect += s.NonDetSelect
		agg.NonDetHistory += s.NonDetHistory
		if len(agg.NonDetSelectAt) < 5 {
			agg.NonDetSelectAt = append(agg.NonDetSelectAt, s.NonDetSelectAt...)
		}
		agg.DistinctSch += s.DistinctSch
		if s.MaxSteps > agg.MaxSteps {
			agg.MaxSteps = s.MaxSteps
		}
		for k, v := range s.Probes {
			agg.Probes[k] += v
		}
		for k, v := range s.Faults {
			agg.Faults[k] += v
		}
		for k, v := range s.FaultRuns {
			agg.FaultRuns[k] += v
		}
		for k, v := range s.Strategies {
			agg.Strategies[k] += v
		}
		for k, v := range s.Verdicts {
			agg.Verdicts[k] += v
		}
		for k, v := range s.ClassCounts {
			agg.ClassCounts[k] += v
		}
		if len(agg.Samples) < 3 {
			agg.Samples = append(agg.Samples, s.Samples...)
		}
		infra = append(infra, s.Infra...)
		nondet = append(nondet, s.NonDet...)
		viols = append(viols, s.Violations...)
		if s.HashFile != "" {
			if b, err := os.ReadFile(s.HashFile); err == nil {
				for i := 0; i+8 <= len(b); i += 8 {
					pairs[binary.LittleEndian.Uint64(b[i:])] = struct{}{}
				}
			}
		}
	}
	// Trouble in some workers (a stalled or crashed worker) gives no verdict -
	// unless other workers raised alarms that are then confirmed in fresh
	// processes: a confirmed violation is sound whatever else went wrong.
	infraDie := func() {
		for _, m := range infra {
			fmt.Fprintln(os.Stderr, "INFRA:", m)
		}
		die(2, "infrastructure trouble in check %s (not a property verdict)", id)
	}
	if len(infra) > 0 && len(viols) == 0 && len(cpuLoops) == 0 {
		infraDie()
	}
	if agg.Runs == 0 && len(cpuLoops) == 0 {
		die(2, "no simulated run completed")
	}

	// confirm violations in a fresh process; match known findings
	exit := 0
	nViol := 0
	var knownHit, unrepro []string
	seenClass := map[string]bool{}
	sort.Slice(viols, func(i, j int) bool {
		if viols[i].Class != viols[j].Class {
			return viols[i].Class < viols[j].Class
		}
		return len(viols[i].Scen)+len(viols[i].Dyn) < len(viols[j].Scen)+len(viols[j].Dyn)
	})
	os.MkdirAll(filepath.Join(verifDir, "replays"), 0o755)
	for _, path := range cpuLoops {
		fmt.Printf("violation class %s/cpu-loop: a goroutine of the code under test never reached a scheduling point again (endless loop), reproduced in a fresh process\n", id)
		fmt.Printf("VIOLATION property=%s replay=%s\n", id, path)
		nViol++
		exit = 1
		break
	}
	for _, v := range viols {
		if seenClass[v.Class] {
			continue
		}
		seenClass[v.Class] = true
		rf := replayFile{Property: id, Class: v.Class, Msg: v.Msg, Tier: tier, CheckSeed: seed, RunIdx: v.RunIdx, RunSeed: v.Seed, Scen: v.Scen, Dyn: v.Dyn,
			EventHash: v.EventHash, TreeFP: binfo.Fingerprint, Engine: "vsim-1", Harness: v.Harness,
			Minimise: fmt.Sprintf("%d tape cells before, %d after, %d re-runs", v.OrigCells, len(v.Scen)+len(v.Dyn), v.Reruns)}
		tmpRF := filepath.Join(scratch, "replay-in.json")
		// Fresh-process replay.  Deterministic code reproduces at the first attempt; if
		// the code under test is itself nondeterministic (map iteration racing with a
		// writer, say) a few attempts are allowed, then the un-minimised tape is tried.
		var res map[string]any
		attempts, reproduced := 0, false
		for _, cand := range [][2][]uint32{{v.Scen, v.Dyn}, {v.OrigScen, v.OrigDyn}} {
			if cand[0] == nil && cand[1] == nil && attempts > 0 {
				continue
			}
			rf.Scen, rf.Dyn = cand[0], cand[1]
			writeJSON(tmpRF, rf)
			for k := 0; k < 5 && !reproduced; k++ {
				attempts++
				r, code, errText := replayOnce(filepath.Join(dir, v.Harness+".test"), p, tmpRF, scratch)
				if code != 0 || r == nil {
					die(2, "fresh-process replay of a %s violation failed to run: %s", v.Class, errText)
				}
				if cls, _ := r["class"].(string); cls == v.Class {
					res, reproduced = r, true
				}
			}
			if reproduced {
				break
			}
		}
		if !reproduced {
			// The run may depend on what earlier runs left behind in the worker process
			// (hidden package-level state): re-execute a suffix of the worker's history.
			bin := filepath.Join(dir, v.Harness+".test")
			batch := uint64(p.Batch)
			if batch == 0 {
				batch = 200
			}
			if ok, _, at := historyScan(bin, p, tier, seed, v.BatchFrom, batch, v.Class, scratch); ok {
				// shrink the history: the shortest suffix of runs that still ends in the violation
				for k := uint64(1); ; k *= 2 {
					from := v.BatchFrom
					if at >= k && at-k > from {
						from = at - k
					}
					if ok2, msg := historyReplay(bin, p, tier, seed, from, at, v.Class, scratch); ok2 {
						rf.History = &history{From: from, RunIdx: at, Note: "not reproducible from one run's tape: the outcome depends on state that earlier runs left in the process; replay re-executes runs from_run_idx..failing_run_idx of this check seed in one fresh process"}
						rf.Scen, rf.Dyn, rf.RunIdx = nil, nil, at
						rf.Msg = msg
						rf.Minimise = fmt.Sprintf("history of %d runs", at-from+1)
						res = map[string]any{"class": v.Class, "msg": msg}
						reproduced = true
						break
					}
					if from == v.BatchFrom {
						break
					}
				}
			}
		}
		if !reproduced {
			unrepro = append(unrepro, fmt.Sprintf("violation %s (run %d) did not reproduce in a fresh process in %d attempts nor by replaying the worker's history: not reported", v.Class, v.RunIdx, attempts))
			continue
		}
		if attempts > 1 {
			rf.Minimise += fmt.Sprintf("; the code under test behaves nondeterministically: reproduced at fresh-process attempt %d", attempts)
		}
		if raw, ok := res["event_hash_str"].(string); ok {
			rf.EventHash, _ = strconv.ParseUint(raw, 10, 64)
		}
		rf.Scenario, rf.Faults = res["scenario"], res["faults"]
		if m, ok := res["msg"].(string); ok {
			rf.Msg = m
		}
		if sch, ok := res["schedule"].([]any); ok {
			for _, x := range sch {
				rf.Schedule = append(rf.Schedule, fmt.Sprint(x))
			}
		}
		// known finding?
		matched := false
		for _, k := range known {
			if k.Status == "open" && k.Property == id && k.Class == v.Class && (k.Contains == "" || strings.Contains(rf.Msg, k.Contains)) {
				fmt.Printf("KNOWN-FINDING: property=%s %s\n", id, k.Text)
				knownHit = append(knownHit, k.Text)
				matched = true
				break
			}
		}
		if matched {
			continue
		}
		name := fmt.Sprintf("%s-%d-%s.json", id, seed, shortHash(v.Class+fmt.Sprint(v.Scen, v.Dyn)))
		path := filepath.Join(verifDir, "replays", name)
		writeJSON(path, rf)
		fmt.Printf("violation class %s: %s\n", v.Class, rf.Msg)
		fmt.Printf("VIOLATION property=%s replay=%s\n", id, path)
		nViol++
		exit = 1
	}

	for _, m := range unrepro {
		fmt.Fprintln(os.Stderr, "vcheck:", m)
	}
	if len(unrepro) > 0 && nViol == 0 && len(knownHit) == 0 {
		die(2, "alarm(s) raised by workers could not be reproduced: no verdict for %s", id)
	}
	if len(infra) > 0 {
		if nViol == 0 && len(knownHit) == 0 {
			infraDie()
		}
		for _, m := range infra {
			fmt.Fprintln(os.Stderr, "note (a worker had trouble; the violations below were confirmed in fresh processes all the same):", tail(m, 300))
		}
	}
	// auxiliary race lane (runtime monitoring, separate evidence keys)
	var race *raceResult
	if p.RaceLane && os.Getenv("VSIM_NO_RACE") == "" {
		race = runRaceLane(p, tier, seed, scratch)
		if race.Mismatches < 0 {
			for _, r := range race.Reports {
				fmt.Fprintln(os.Stderr, "INFRA:", r)
			}
			die(2, "race lane of %s failed to run", id)
		}
		report := func(class, msg string, detail any) {
			for _, k := range known {
				if k.Status == "open" && k.Property == id && k.Class == class && (k.Contains == "" || strings.Contains(msg, k.Contains)) {
					fmt.Printf("KNOWN-FINDING: property=%s %s\n", id, k.Text)
					knownHit = append(knownHit, k.Text)
					return
				}
			}
			path := filepath.Join(verifDir, "replays", fmt.Sprintf("%s-%d-race-%s.json", id, seed, shortHash(msg)))
			writeJSON(path, map[string]any{"property": id, "class": class, "msg": msg, "check_seed": seed, "tier": tier, "lane": "race (un-gated, -race build; the schedule is not controlled: re-running the same seed explores the same inputs under whatever schedules the runtime picks)",
				"tree_fingerprint": binfo.Fingerprint, "detail": detail})
			fmt.Printf("violation class %s: %s\n", class, firstLineOf(msg))
			fmt.Printf("VIOLATION property=%s replay=%s\n", id, path)
			nViol++
			exit = 1
		}
		if len(race.Reports) > 0 {
			report(id+"/data-race", "the race detector reported a data race in the un-gated lane: "+firstLineOf(raceSite(race.Reports[0])), race.Reports)
		}
		if race.Hang != "" {
			report(id+"/race-lane-hang", "an un-gated concurrent run never finished (deadlock or livelock): "+race.Hang, tail(race.HangStacks, 8000))
		}
		if race.Mismatches > 0 {
			report(id+"/race-lane-mismatch", "un-gated concurrent run gave a wrong result: "+race.FirstMsg, race.FirstMsg)
		}
	}
	if len(nondet) > 0 && nViol == 0 && len(knownHit) == 0 {
		// the same tape gave two different event logs and no violation explains it:
		// the simulation (or the code under test) is not deterministic — not a verdict
		for _, m := range nondet {
			fmt.Fprintln(os.Stderr, "INFRA:", m)
		}
		die(2, "nondeterministic runs in check %s (not a property verdict)", id)
	}
	if agg.NonDetHistory > 0 {
		fmt.Printf("note: %d of %d determinism spot checks diverged inside a long-lived worker but not between two fresh processes: the code under test keeps process-global state that changes its execution path (judged by the property's oracles like any other run)\n", agg.NonDetHistory, agg.DetChecked)
	}
	if agg.NonDetSelect > 0 {
		fmt.Printf("note: %d of %d determinism spot checks diverged at a select statement whose ready cases the Go runtime chooses between (e.g. %v): legal executions, outside the tape; such runs may not replay\n", agg.NonDetSelect, agg.DetChecked, agg.NonDetSelectAt)
	}
	var missing []string
	for _, pr := range requiredProbes[id] {
		if agg.Probes[pr] == 0 {
			missing = append(missing, pr)
		}
	}
	if len(missing) > 0 && tier == "thorough" && nViol == 0 && os.Getenv("VSIM_RUNS") == "" {
		die(2, "reach probes stuck at zero in the thorough tier of %s: %v (the workload no longer reaches what the property is about)", id, missing)
	}
	// evidence
	wallS := time.Since(t0).Seconds()
	samples := []any{}
	for _, s := range agg.Samples {
		var x map[string]any
		if json.Unmarshal(s, &x) == nil {
			if sm, ok := x["sample"]; ok {
				samples = append(samples, sm)
			}
		}
	}
	if len(samples) == 0 {
		samples = append(samples, map[string]any{"note": "no sample run recorded", "runs": agg.Runs})
	}
	runsPerHour := float64(agg.Runs) / simWall * 3600
	cov := map[string]any{
		"evaluations":                    agg.Runs,
		"distinct_nontrivial":            len(pairs),
		"rule":                           p.Rule,
		"samples":                        samples,
		"simulated_runs":                 agg.Runs,
		"runs_skipped_by_generator":      agg.Skipped,
		"runs_abandoned_after_75s_real":  agg.Abandoned,
		"runs_per_hour":                  int64(runsPerHour),
		"seeds_per_hour":                 int64(runsPerHour),
		"scheduling_steps":               agg.Steps,
		"context_switches":               agg.Switches,
		"max_steps_in_one_run":           agg.MaxSteps,
		"simulated_time_s":               float64(agg.SimTimeNs) / 1e9,
		"gnss_calendar_weeks_simulated":  agg.GNSSWeeks,
		"fault_kinds_fired":              agg.Faults,
		"runs_with_fault_kind":           agg.FaultRuns,
		"strategy_histogram":             agg.Strategies,
		"run_verdicts":                   agg.Verdicts,
		"distinct_event_logs":            agg.DistinctSch,
		"reach_probes":                   agg.Probes,
		"reach_probes_required_but_zero": missing,
		"determinism_spot_checks":        map[string]int{"reruns": agg.DetChecked, "diverged": agg.DetFailed, "diverged_at_a_select_decided_by_the_go_runtime": agg.NonDetSelect, "diverged_because_of_process_global_state_of_the_code_under_test": agg.NonDetHistory},
		"instrumentation":                map[string]any{"files": binfo.Files, "sites": binfo.Counts, "skipped": binfo.Skipped, "degraded": binfo.Degraded},
		"components_real":                p.Real,
		"components_simulated_or_stub":   p.Stub,
		"violation_classes_seen":         agg.ClassCounts,
		"known_findings_matched":         knownHit,
		"tree_fingerprint":               binfo.Fingerprint,
		"workers":                        envOr("VSIM_WORKERS", "16"),
		"simulation_wall_s":              simWall,
	}
	if race != nil {
		cov["race_lane"] = map[string]any{"kind": "auxiliary runtime monitoring, not simulation: un-gated goroutines in a -race build; sound for the 'no data race' clause only",
			"iterations": race.Iterations, "goroutines_started": race.Goroutines, "processes": race.Procs, "race_reports": len(race.Reports), "result_mismatches": race.Mismatches, "wall_s": race.WallS}
	}
	ev := map[string]any{
		"property_id": id,
		"tier":        tier,
		"seed":        int64(seed),
		"level":       "exploration",
		"coverage":    cov,
		"assumptions": assumptions(p),
		"wall_s":      wallS,
		"violations":  nViol,
	}
	writeJSON(evPath, ev)
	fmt.Printf("%s %s: %d runs (%d distinct non-trivial), %d steps, %d violation(s), %d known finding(s), %.1fs\n", id, tier, agg.Runs, len(pairs), agg.Steps, nViol, len(knownHit), wallS)
	return exit
}

type raceResult struct {
	Iterations int
	Mismatches int
	Goroutines int
	Reports    []string
	FirstMsg   string
	Hang       string
	HangStacks string
	WallS      float64
	Procs      []string
}

// runRaceLane runs the un-gated -race build of the lib harness at GOMAXPROCS 1, 4 and 16.
func runRaceLane(p *propDef, tier string, seed uint64, scratch string) *raceResult {
	dir, _ := ensureBuilt([]string{"lib"}, true)
	bin := filepath.Join(dir, "lib.race.test")
	wall := 6
	if tier == "thorough" {
		wall = 150
	}
	if v := os.Getenv("VSIM_RACE_WALL"); v != "" {
		wall, _ = strconv.Atoi(v)
	}
	rr := &raceResult{}
	t0 := time.Now()
	var mu sync.Mutex
	var wg sync.WaitGroup
	for i, gmp := range []string{"1", "4", "16"} {
		wg.Add(1)
		go func(i int, gmp string) {
			defer wg.Done()
			runDir := filepath.Join(scratch, "race-"+gmp)
			os.MkdirAll(runDir, 0o755)
			out := filepath.Join(runDir, "out.json")
			logp := filepath.Join(runDir, "racelog")
			cmd := exec.Command(bin, "-test.run", "^TestVsimRace$", "-test.timeout", "2h", "-test.count", "1")
			cmd.Dir = runDir
			cmd.Env = append(os.Environ(), "GODEBUG=asynctimerchan=0", "GOMAXPROCS="+gmp, "VSIM_PROP="+p.ID, "VSIM_MODE=race", "VERIF_SEED="+strconv.FormatUint(seed, 10),
				"VSIM_FROM="+strconv.Itoa(i*100000000), "VSIM_WALL_S="+strconv.Itoa(wall), "VSIM_OUT="+out, "GORACE=halt_on_error=1 exitcode=66 log_path="+logp)
			ob, err := cmd.CombinedOutput()
			mu.Lock()
			defer mu.Unlock()
			rr.Procs = append(rr.Procs, "GOMAXPROCS="+gmp)
			if logs, _ := filepath.Glob(logp + "*"); len(logs) > 0 {
				for _, l := range logs {
					if b, e := os.ReadFile(l); e == nil && len(b) > 0 {
						rr.Reports = append(rr.Reports, tail(string(b), 6000))
					}
				}
			}
			hung := false
			if ee, ok := err.(*exec.ExitError); ok && ee.ExitCode() == 4 {
				hung = true
			}
			if err != nil && len(rr.Reports) == 0 && !hung {
				rr.Reports = append(rr.Reports, "race-lane process failed without a race log: "+tail(string(ob), 3000))
				rr.Mismatches = -1
			}
			if b, e := os.ReadFile(out); e == nil {
				var x struct {
					Iterations, Mismatches int
					Goroutines             int    `json:"goroutines_started"`
					First                  string `json:"first_mismatch"`
					Hang                   string `json:"hang"`
					HangStacks             string `json:"hang_stacks"`
				}
				if json.Unmarshal(b, &x) == nil {
					if x.Hang != "" && rr.Hang == "" {
						rr.Hang, rr.HangStacks = x.Hang, x.HangStacks
					}
					rr.Iterations += x.Iterations
					if rr.Mismatches >= 0 {
						rr.Mismatches += x.Mismatches
					}
					rr.Goroutines += x.Goroutines
					if rr.FirstMsg == "" {
						rr.FirstMsg = x.First
					}
				}
			}
		}(i, gmp)
	}
	wg.Wait()
	rr.WallS = time.Since(t0).Seconds()
	return rr
}

func assumptions(p *propDef) []string {
	a := []string{
		"seeded sampling of schedules and fault sequences, not enumeration: a clean batch is evidence, not proof",
		"the code under test is the current working tree of /repo instrumented at check time through go build -overlay (yield points around channel operations, go statements, close, locks); semantics of the instrumented copy are assumed equal to the original apart from scheduling",
		"built and run with go1.26.8 and GODEBUG=asynctimerchan=0 (testing/synctest fake clock); the shipped programs are normally built with go1.23",
	}
	if len(p.Stub) > 0 {
		a = append(a, "simulated or stubbed: "+strings.Join(p.Stub, "; "))
	}
	return a
}

func firstLineOf(s string) string {
	if i := strings.IndexByte(s, '\n'); i >= 0 {
		return s[:i]
	}
	return s
}

// raceSite extracts the first repository frame of a race report.
func raceSite(rep string) string {
	for _, l := range strings.Split(rep, "\n") {
		l = strings.TrimSpace(l)
		if strings.Contains(l, "/repo") || strings.Contains(l, "go-ntrip") {
			if !strings.Contains(l, "zz_vsim") && !strings.Contains(l, "verif/vsim") {
				return l
			}
		}
	}
	return firstLineOf(rep)
}

func shortHash(s string) string {
	h := sha256.Sum256([]byte(s))
	return hex.EncodeToString(h[:])[:10]
}

func writeJSON(path string, v any) {
	b, err := json.MarshalIndent(v, "", " ")
	if err != nil {
		die(2, "marshal: %v", err)
	}
	if err := os.WriteFile(path, b, 0o644); err != nil {
		die(2, "write %s: %v", path, err)
	}
}

func replayOnce(bin string, p *propDef, file, scratch string) (map[string]any, int, string) {
	return replayOnceEnv(bin, p, file, scratch, nil)
}

func replayOnceEnv(bin string, p *propDef, file, scratch string, extra map[string]string) (map[string]any, int, string) {
	out := filepath.Join(scratch, "replay-out.json")
	os.Remove(out)
	runDir := filepath.Join(scratch, "replay")
	os.MkdirAll(runDir, 0o755)
	env := map[string]string{"VSIM_PROP": p.ID, "VSIM_MODE": "replay", "VSIM_REPLAY": file, "VSIM_OUT": out, "VSIM_TMP": runDir}
	for k, v := range extra {
		env[k] = v
	}
	cmd := workerCmd(bin, runDir, env)
	var sb strings.Builder
	cmd.Stdout, cmd.Stderr = &sb, &sb
	err := cmd.Run()
	code := 0
	if err != nil {
		code = 2
		if ee, ok := err.(*exec.ExitError); ok && ee.ExitCode() == 3 {
			return nil, 3, tail(sb.String(), 3000) // the replay itself ran into the watchdog
		}
	}
	b, rerr := os.ReadFile(out)
	if rerr != nil {
		return nil, 2, tail(sb.String(), 3000)
	}
	var res map[string]any
	dec := json.NewDecoder(strings.NewReader(string(b)))
	dec.UseNumber()
	if err := dec.Decode(&res); err != nil {
		return nil, 2, err.Error()
	}
	if n, ok := res["event_hash"].(json.Number); ok {
		res["event_hash_str"] = n.String()
	}
	return res, code, tail(sb.String(), 3000)
}

func replayCmd(path string) int {
	if a, err := filepath.Abs(path); err == nil {
		path = a
	}
	b, err := os.ReadFile(path)
	if err != nil {
		die(2, "%v", err)
	}
	var rf replayFile
	if err := json.Unmarshal(b, &rf); err != nil {
		die(2, "%v", err)
	}
	p := findProp(rf.Property)
	if p == nil {
		die(2, "unknown property %s", rf.Property)
	}
	if rf.Harness == "" {
		rf.Harness = p.Harness
	}
	dir, binfo := ensureBuilt([]string{rf.Harness}, false)
	scratch := newScratch("vsim-replay-")
	defer os.RemoveAll(scratch)
	if rf.History != nil {
		tier := rf.Tier
		if tier == "" {
			tier = "quick"
		}
		if ok, msg := historyReplay(filepath.Join(dir, rf.Harness+".test"), p, tier, rf.CheckSeed, rf.History.From, rf.History.RunIdx, rf.Class, scratch); ok {
			fmt.Printf("reproduced by re-executing runs %d..%d: %s: %s\n", rf.History.From, rf.History.RunIdx, rf.Class, msg)
			fmt.Printf("VIOLATION property=%s replay=%s\n", rf.Property, path)
			return 1
		}
		fmt.Printf("not reproduced on this tree (history replay of runs %d..%d); tree fingerprint %s vs recorded %s\n", rf.History.From, rf.History.RunIdx, binfo.Fingerprint, rf.TreeFP)
		if binfo.Fingerprint == rf.TreeFP {
			return 2
		}
		return 0
	}
	if strings.HasSuffix(rf.Class, "/cpu-loop") {
		if _, code, _ := replayOnceEnv(filepath.Join(dir, rf.Harness+".test"), p, path, scratch, map[string]string{"VSIM_WATCHDOG_S": "30"}); code == 3 {
			fmt.Printf("reproduced: %s: the run stalls without reaching a scheduling point\n", rf.Class)
			fmt.Printf("VIOLATION property=%s replay=%s\n", rf.Property, path)
			return 1
		}
		fmt.Printf("not reproduced on this tree (no stall); tree fingerprint %s vs recorded %s\n", binfo.Fingerprint, rf.TreeFP)
		if binfo.Fingerprint == rf.TreeFP {
			return 2
		}
		return 0
	}
	res, code, errText := replayOnce(filepath.Join(dir, rf.Harness+".test"), p, path, scratch)
	if code != 0 || res == nil {
		die(2, "replay failed to run: %s", errText)
	}
	cls, _ := res["class"].(string)
	msg, _ := res["msg"].(string)
	eh, _ := strconv.ParseUint(fmt.Sprint(res["event_hash_str"]), 10, 64)
	if sch, ok := res["schedule"].([]any); ok && os.Getenv("VSIM_QUIET") == "" {
		for _, x := range sch {
			fmt.Println("  ", x)
		}
	}
	if cls == rf.Class && eh == rf.EventHash {
		fmt.Printf("reproduced: %s: %s\n", cls, msg)
		fmt.Printf("VIOLATION property=%s replay=%s\n", rf.Property, path)
		return 1
	}
	if cls == rf.Class {
		fmt.Printf("same violation class %s but a different event log (tree %s, file recorded %s): %s\n", cls, binfo.Fingerprint, rf.TreeFP, msg)
		if binfo.Fingerprint != rf.TreeFP {
			fmt.Printf("VIOLATION property=%s replay=%s\n", rf.Property, path)
			return 1
		}
		return 2
	}
	fmt.Printf("not reproduced on this tree (class now %q, file says %q); tree fingerprint %s vs recorded %s\n", cls, rf.Class, binfo.Fingerprint, rf.TreeFP)
	if binfo.Fingerprint == rf.TreeFP {
		return 2
	}
	return 0
}

// selftest: determinism across processes, GOMAXPROCS values, and the "0 is
// simplest" convention, for every harness that is available.
func selftest(tier string) int {
	seeds := 4
	if tier == "thorough" {
		seeds = 32
	}
	bad := 0
	for _, p := range props {
		if !harnessAvailable(p.Harness) {
			continue
		}
		dir, _ := ensureBuilt([]string{p.Harness}, false)
		bin := filepath.Join(dir, p.Harness+".test")
		scratch := newScratch("vsim-self-")
		type key struct{ seed int }
		ref := map[int]string{}
		var mu sync.Mutex
		var wg sync.WaitGroup
		sem := make(chan struct{}, 16)
		for sd := 1; sd <= seeds; sd++ {
			for _, gmp := range []string{"1", "4", "16"} {
				wg.Add(1)
				go func(sd int, gmp string) {
					defer wg.Done()
					sem <- struct{}{}
					defer func() { <-sem }()
					out := filepath.Join(scratch, fmt.Sprintf("s-%d-%s.json", sd, gmp))
					runDir := filepath.Join(scratch, fmt.Sprintf("d-%d-%s", sd, gmp))
					os.MkdirAll(runDir, 0o755)
					cmd := workerCmd(bin, runDir, map[string]string{"VSIM_PROP": p.ID, "VSIM_TIER": "quick", "VERIF_SEED": strconv.Itoa(sd), "VSIM_FROM": "0",
						"VSIM_COUNT": "12", "VSIM_OUT": out, "VSIM_TMP": runDir, "VSIM_DET_EVERY": "4", "VSIM_DUMP_HASHES": "1", "VSIM_MAX_VIOL": "0"})
					cmd.Env = append(cmd.Env, "GOMAXPROCS="+gmp)
					ob, err := cmd.CombinedOutput()
					sig := ""
					if err != nil {
						sig = "ERR " + tail(string(ob), 500)
					} else if b, err := os.ReadFile(out + ".evhashes"); err == nil {
						sig = shortHash(string(b))
					} else {
						sig = "no hashes"
					}
					mu.Lock()
					if r, ok := ref[sd]; !ok {
						ref[sd] = sig
					} else if r != sig || strings.HasPrefix(sig, "ERR") {
						fmt.Printf("SELFTEST %s: seed %d GOMAXPROCS=%s diverged: %s vs %s\n", p.ID, sd, gmp, sig, r)
						bad++
					}
					mu.Unlock()
				}(sd, gmp)
			}
		}
		wg.Wait()
		os.RemoveAll(scratch)
		fmt.Printf("selftest %s: %d seeds x 3 GOMAXPROCS values, 12 runs each: ok=%v\n", p.ID, seeds, bad == 0)
	}
	if bad > 0 {
		return 2
	}
	return 0
}
