package main

var realCore = []string{"rtcm/handler (framing, CRC gate, GetMessage)", "rtcm/pushback", "rtcm/utils", "go-crc24q", "Go channels and runtime"}

var props = []propDef{
	{ID: "C01", Harness: "lib", Quick: 24000, Thorough: 1200000, Batch: 500, QuickWall: 40, ThorWall: 900,
		Rule: "one evaluation = one simulated run: a generated stream (valid frames of all types/lengths, junk, stray-0xD3 garbage, byzantine CRC-consistent frames, truncated tail) passed through 0-3 line faults, fed byte-wise by a gated producer into the real HandleMessages goroutine and drained by a gated consumer, plus GetMessage on every segment, corrupted variant, prefix and extension; non-trivial = at least one message delivered; distinct = distinct (wire-bytes hash, event-log hash) pairs, counted with a set",
		Real: realCore, Stub: []string{"byte source (simulated line)", "consumer", "scheduler choice"}},
	{ID: "C02", Harness: "lib", Quick: 16000, Thorough: 800000, Batch: 400, QuickWall: 40, ThorWall: 900,
		Rule: "one evaluation = one simulated run of producer/HandleMessages/consumer over a generated noisy stream with tape-chosen channel capacities and speeds; one run in three over a short stream additionally closes the input after every byte position (crash-point enumeration, each its own scheduled execution); non-trivial = at least one message delivered; distinct = distinct (wire hash, event-log hash) pairs",
		Real: realCore, Stub: []string{"byte source (simulated line)", "consumer", "scheduler choice"}},
	{ID: "C03", Harness: "lib", Quick: 20000, Thorough: 1000000, Batch: 500, QuickWall: 40, ThorWall: 900,
		Rule: "one evaluation = one simulated run over a stream of valid frames (any type, payload 1..1023, 0xD3 allowed in payload and CRC) multiplexed with 0xD3-free junk runs, optional truncated tail, compared element by element with the generator's own segment list; one run in three with a short last frame also truncates it at every byte; non-trivial = at least one message delivered; distinct = distinct (wire hash, event-log hash) pairs",
		Real: realCore, Stub: []string{"RTCM device and NMEA/UBX talker (simulated)", "consumer", "scheduler choice"}},
	{ID: "C09", Harness: "lib", Quick: 12000, Thorough: 600000, Batch: 300, QuickWall: 45, ThorWall: 900, RaceLane: true,
		Rule: "one evaluation = one simulated run of appcore.HandleMessagesUntilEOF over a simulated chunking reader with 1-4 consumer channels (nil / unbuffered / buffered, fast or slow) under a tape-chosen scheduling strategy; compared with sequential framing of the same bytes by the same code; non-trivial = at least one message and one non-nil consumer; distinct = distinct (wire hash, event-log hash) pairs",
		Real: append([]string{"apps/appcore HandleMessagesUntilEOF", "file_handler.Handle", "bufio.Reader"}, realCore...), Stub: []string{"byte source", "consumers", "scheduler choice", "jsonconfig.WaitAndConnectToInput not executed"}},
	{ID: "C12", Harness: "lib", Quick: 16000, Thorough: 800000, Batch: 400, QuickWall: 40, ThorWall: 900,
		Rule: "one evaluation = one generated C03-style stream with one victim frame whose payload/CRC bytes are corrupted (leader intact, CRC verified to fail by the independent CRC): either every single-bit flip of a short victim, each as its own scheduled execution, or one sampled multi-bit / burst / 0xD3-overwrite corruption; compared with the ground truth in which the victim is one non-RTCM segment; non-trivial = at least one message delivered; distinct = distinct (stream+victim hash, event-log hash) pairs",
		Real: realCore, Stub: []string{"RTCM device, talker and line (simulated)", "consumer", "scheduler choice"}},
	{ID: "C13", Harness: "lib", Quick: 12000, Thorough: 600000, Batch: 300, QuickWall: 45, ThorWall: 900,
		Rule: "one evaluation = one simulated run of file_handler.Handle over a simulated source that reports EOF / i-o timeout / a fatal error at 0-2 tape-chosen byte offsets (biased to inside leader, payload, CRC) and resumes within the tolerance or stays silent far beyond it, under the synctest fake clock, with tolerance in {0,1,50,1000,60000} ms and wait in {0,1,20,2000} ms; non-trivial = at least one message delivered and at least one interruption; distinct = distinct (scenario hash, event-log hash) pairs",
		Real: append([]string{"file_handler.Handle (retry loop, time.Now/time.Sleep under the fake clock)", "bufio.Reader", "jsonconfig timeouts"}, realCore...), Stub: []string{"byte source", "consumer", "clock (synctest bubble)", "scheduler choice"}},
}
