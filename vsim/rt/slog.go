package rt

import (
	"context"
	"log/slog"
	"sync"
)

// gateHandler serialises the records of one logger with a lock that the
// scheduler emulates (slog's own handler mutex is then never contended).
type gateHandler struct {
	h  slog.Handler
	mu *sync.Mutex
}

func GateHandler(h slog.Handler) slog.Handler { return &gateHandler{h: h, mu: new(sync.Mutex)} }

func (g *gateHandler) Enabled(ctx context.Context, l slog.Level) bool { return g.h.Enabled(ctx, l) }

func (g *gateHandler) Handle(ctx context.Context, r slog.Record) error {
	Lock("slog handler", g.mu, g.mu.TryLock, g.mu.Lock)
	defer func() {
		g.mu.Unlock()
		Unlocked()
	}()
	return g.h.Handle(ctx, r)
}

func (g *gateHandler) WithAttrs(a []slog.Attr) slog.Handler {
	return &gateHandler{h: g.h.WithAttrs(a), mu: g.mu}
}

func (g *gateHandler) WithGroup(name string) slog.Handler {
	return &gateHandler{h: g.h.WithGroup(name), mu: g.mu}
}
