package rt

// The network seam.  The rewriter turns net.Listen / net.Dial / net.DialTimeout
// and http.HandleFunc / http.ListenAndServe of the instrumented packages into
// the functions below.  Outside a simulated run (no hook installed) they are the
// originals; inside one the harness owns the network: listeners and connections
// are simulated objects whose every Read, Write and Accept is a scheduling point,
// and the HTTP status service is a registry of handlers which the simulated
// operator calls directly (a real socket is not a durable block inside a
// synctest bubble and would hang it).

import (
	"net"
	"net/http"
	"time"
)

// NetHook is installed by a harness for the duration of a run.
type NetHook interface {
	Listen(network, addr string) (net.Listener, error)
	Dial(network, addr string) (net.Conn, error)
	HandleFunc(pattern string, h func(http.ResponseWriter, *http.Request))
	ListenAndServe(addr string, h http.Handler) error
}

var netHook NetHook

// SetNetHook installs (or, with nil, removes) the simulated network.
func SetNetHook(h NetHook) { netHook = h }

func Listen(network, addr string) (net.Listener, error) {
	if h := netHook; h != nil {
		return h.Listen(network, addr)
	}
	return net.Listen(network, addr)
}

func Dial(network, addr string) (net.Conn, error) {
	if h := netHook; h != nil {
		return h.Dial(network, addr)
	}
	return net.Dial(network, addr)
}

func DialTimeout(network, addr string, d time.Duration) (net.Conn, error) {
	if h := netHook; h != nil {
		return h.Dial(network, addr)
	}
	return net.DialTimeout(network, addr, d)
}

func HandleFunc(pattern string, f func(http.ResponseWriter, *http.Request)) {
	if h := netHook; h != nil {
		h.HandleFunc(pattern, f)
		return
	}
	http.HandleFunc(pattern, f)
}

func ListenAndServe(addr string, handler http.Handler) error {
	if h := netHook; h != nil {
		return h.ListenAndServe(addr, handler)
	}
	return http.ListenAndServe(addr, handler)
}
