// Package rt is the run-time half of the vsim deterministic simulator: a gate
// scheduler that lives inside one testing/synctest bubble.  Every goroutine of
// the code under test (instrumented at check time by vsim-instr) and of the
// simulated environment parks at Yield points; the scheduler (the bubble's
// root goroutine) releases exactly one parked goroutine at a time, chosen from
// the choice tape.  synctest.Wait tells the scheduler when the released
// goroutine, and anything it woke, has parked again or is durably blocked.
package rt

import (
	"fmt"
	"hash/fnv"
	"io"
	"os"
	"reflect"
	"runtime"
	"sort"
	"strconv"
	"strings"
	"sync"
	"sync/atomic"
	"testing/synctest"
	"time"
)

// Package ids for granularity yields (YieldS / YieldF).  vsim-instr emits
// the id of the package a file belongs to; a run enables a set of them.
const (
	PkgOther = iota
	PkgQueue
	PkgReportFeed
	PkgPushback
	PkgHandler
	PkgHeader
	PkgDecoders // type1005, type1006, type_msm4/*, type_msm7/*
	PkgUtils
	PkgFileHandler
	PkgAppCore
	PkgProxy
	PkgApps
	pkgCount
)

// PkgIDs maps repository-relative package directories to ids (used by instr).
var PkgIDs = map[string]int{
	"apps/proxy/circular_queue": PkgQueue,
	"apps/proxy/reportfeed":     PkgReportFeed,
	"rtcm/pushback":             PkgPushback,
	"rtcm/handler":              PkgHandler,
	"rtcm/header":               PkgHeader,
	"rtcm/type1005":             PkgDecoders,
	"rtcm/type1006":             PkgDecoders,
	"rtcm/type_msm4/message":    PkgDecoders,
	"rtcm/type_msm4/satellite":  PkgDecoders,
	"rtcm/type_msm4/signal":     PkgDecoders,
	"rtcm/type_msm7/message":    PkgDecoders,
	"rtcm/type_msm7/satellite":  PkgDecoders,
	"rtcm/type_msm7/signal":     PkgDecoders,
	"rtcm/utils":                PkgUtils,
	"file_handler":              PkgFileHandler,
	"apps/appcore":              PkgAppCore,
	"apps/proxy":                PkgProxy,
}

type G struct {
	name         string
	gate         chan struct{}
	site         string
	frozen       time.Time // not eligible before this instant of the bubble clock (a stalled goroutine)
	pendingTimer bool      // a time.AfterFunc that has not fired yet: not a goroutine of the program
	waiting      bool      // waiting for a lock to be released
	spawned      int
	prio         int
	hasPrio      bool
}

// Strategy kinds (generation mode only; a replayed tape carries the picks).
const (
	StratRandom = iota
	StratSticky // keep running the same goroutine with high probability (long runs, few switches)
	StratPCT
	StratStarve
	StratRoundRobin
	stratCount
)

var StratNames = []string{"random", "sticky", "pct", "starve", "roundrobin"}

type Sim struct {
	T *Tape

	mu     sync.Mutex
	byGoid map[uintptr]*G
	live   map[string]*G
	parked map[string]*G

	Steps         int
	Budget        int // steps allowed WITHOUT progress (see Progress)
	sinceProgress int
	Switches      int
	last          string

	h         interface{ Sum64() uint64 }
	hw        io.Writer
	KeepTrace bool
	Trace     []string
	traceCap  int

	Panics   []string // captured panics of gated goroutines (message + stack)
	PanicMsg []string // message only
	ExitCode int
	Exited   bool
	dead     atomic.Bool

	wake     chan struct{}
	rootDone atomic.Bool
	// RootDoneStep is the step count at which the root function returned.
	RootDoneStep int

	Strategy    int
	pctChanges  []int
	starveKey   string
	starveOneIn int
	stickyNum   int

	// Freeze: the "stalled goroutine" fault.  When on, the scheduler now and then
	// makes a parked goroutine ineligible for a while of simulated time (a disk
	// write that hangs, a long GC pause, a descheduled thread), so that timeouts
	// and tickers elsewhere fire while it is stuck at exactly that point.
	Freeze      bool
	FreezeCount int
	Active      time.Duration
	Lead        time.Duration // simulated time a harness let pass before the program started (not counted as covered)

	// granularity yields enabled for these package ids
	stmtOn [pkgCount]bool
	fnOn   [pkgCount]bool

	StdinR  io.Reader
	StdoutW io.Writer
	StderrW io.Writer

	pendingW map[uintptr]int // writers waiting per lock (sync.RWMutex writer preference)

	WasAbandoned bool

	// counters
	LockContention     int
	ReaderBehindWriter int
	IdleJumps          int
	Start              time.Time

	// Goroutine names ever seen, in order of creation (for evidence).
	Names []string
}

var cur atomic.Pointer[Sim]

// GlobalSteps counts scheduling steps of all simulations of this process: the
// worker's watchdog calls a run stalled only when no step is taken for a long
// time (a goroutine that never reaches a yield), never because a run is long.
var GlobalSteps atomic.Int64

// Abandon is set from outside the bubble (real time) when the current run has
// been going for too long to be worth finishing (a goroutine explosion makes
// every step slow, say).  The run then ends with the verdict Abandoned and is
// counted as skipped: an abandoned run is never a verdict about the property.
var Abandon atomic.Bool

// Cur returns the simulation the calling code runs under, or nil.
func Cur() *Sim { return cur.Load() }

func New(t *Tape) *Sim {
	h := fnv.New64a()
	s := &Sim{T: t, byGoid: map[uintptr]*G{}, live: map[string]*G{}, parked: map[string]*G{}, pendingW: map[uintptr]int{}, h: h, hw: h, Budget: 1 << 20, traceCap: 1 << 16}
	return s
}

// EnableStmt / EnableFn switch on statement / function granularity yields in
// the given packages for this run.
func (s *Sim) EnableStmt(pkgs ...int) {
	for _, p := range pkgs {
		s.stmtOn[p] = true
	}
}
func (s *Sim) EnableFn(pkgs ...int) {
	for _, p := range pkgs {
		s.fnOn[p] = true
	}
}

// ChooseStrategy draws the scheduling strategy of this run from the dynamic
// tape (so that it is recorded) — generation mode only matters.
func (s *Sim) ChooseStrategy() {
	s.Strategy = s.T.DW(4, 3, 3, 3, 1)
	switch s.Strategy {
	case StratPCT:
		d := s.T.Aux.intn(4)
		for i := 0; i < d; i++ {
			s.pctChanges = append(s.pctChanges, 1+s.T.Aux.intn(2000))
		}
	case StratStarve:
		s.starveKey = ""
		// how often the victim still gets a turn although others are eligible:
		// 1 in 16, 1 in 512, or never (strict: it runs only when nothing else can)
		s.starveOneIn = []int{16, 512, 0}[s.T.Aux.intn(3)]
	case StratSticky:
		s.stickyNum = 2 + s.T.Aux.intn(30)
	}
}

// StarveKey sets a substring identifying the goroutine class to starve when
// the starvation strategy is active (e.g. "DisplayMessages").  Harnesses call
// it with a tape-chosen victim.
func (s *Sim) SetStarveKey(k string) { s.starveKey = k }

func (s *Sim) me() *G {
	id := gid()
	s.mu.Lock()
	g := s.byGoid[id]
	s.mu.Unlock()
	return g
}

// Progress tells the scheduler that the run got somewhere (the environment
// handed out or accepted data, a consumer received a message, an operation
// returned).  The step budget counts steps since the last such event, so that
// periodic background activity during a long simulated stall (a ticker firing
// through a two-minute write) is not mistaken for a livelock, while a run that
// goes round in circles without achieving anything still runs out of budget.
func Progress() {
	if s := cur.Load(); s != nil {
		s.mu.Lock()
		s.sinceProgress = 0
		s.mu.Unlock()
	}
}

// Logf adds a line to the event log (hash and optional trace).  It never
// draws from the tape and never reads a clock.
func (s *Sim) Logf(format string, a ...any) {
	s.mu.Lock()
	s.logLocked(fmt.Sprintf(format, a...))
	s.mu.Unlock()
}

func (s *Sim) logLocked(line string) {
	io.WriteString(s.hw, line)
	io.WriteString(s.hw, "\n")
	if s.KeepTrace && len(s.Trace) < s.traceCap {
		s.Trace = append(s.Trace, line)
	}
}

// Log is Logf for code that may run with or without a simulation.
func Logf(format string, a ...any) {
	if s := cur.Load(); s != nil {
		s.Logf(format, a...)
	}
}

func (s *Sim) Hash() uint64 { return s.h.Sum64() }

// FreePerturb makes Yield outside a simulation call runtime.Gosched now and
// then (auxiliary race lane: un-gated runs under the race detector).
var FreePerturb atomic.Bool
var perturbCtr atomic.Uint64

func perturb() {
	if FreePerturb.Load() {
		if x := perturbCtr.Add(0x9e3779b97f4a7c15); (x>>33)%3 == 0 {
			runtime.Gosched()
		}
	}
}

// Yield parks the calling goroutine until the scheduler releases it.
func Yield(site string) {
	s := cur.Load()
	if s == nil {
		perturb()
		return
	}
	g := s.me()
	if g == nil {
		return
	}
	s.park(g, site)
}

// YieldS is a statement-granularity yield, YieldF a function-granularity one;
// both are no-ops unless the run enabled them for the package.
func YieldS(pkg int, site string) {
	s := cur.Load()
	if s == nil || !s.stmtOn[pkg] {
		return
	}
	if g := s.me(); g != nil {
		s.park(g, site)
	}
}
func YieldF(pkg int, site string) {
	s := cur.Load()
	if s == nil || !s.fnOn[pkg] {
		return
	}
	if g := s.me(); g != nil {
		s.park(g, site)
	}
}

func (s *Sim) park(g *G, site string) {
	if s.dead.Load() {
		runtime.Goexit()
	}
	s.mu.Lock()
	g.site = site
	s.parked[g.name] = g
	s.mu.Unlock()
	select {
	case s.wake <- struct{}{}:
	default:
	}
	<-g.gate
	if s.dead.Load() {
		runtime.Goexit()
	}
}

type exitPanic struct{ code int }

// Exit replaces os.Exit in instrumented code: it records a process-exit event
// and unwinds the calling goroutine.
func Exit(code int) {
	s := cur.Load()
	if s == nil || s.me() == nil {
		os.Exit(code)
	}
	panic(exitPanic{code})
}

// Go starts f as a gated goroutine (replaces the go statement).
func Go(site string, f func()) {
	s := cur.Load()
	if s == nil {
		go f()
		return
	}
	p := s.me()
	if p == nil {
		go f()
		return
	}
	s.mu.Lock()
	p.spawned++
	g := &G{name: p.name + "/" + site + "#" + strconv.Itoa(p.spawned), gate: make(chan struct{})}
	s.live[g.name] = g
	s.Names = append(s.Names, g.name)
	s.logLocked("spawn " + g.name)
	s.mu.Unlock()
	s.start(g, f)
}

// GoDaemon starts a service goroutine of a library (the daily log rotation):
// it is scheduled like every other goroutine, but it never ends, so it does
// not count as work in progress when the scheduler decides whether a run is
// over or a helper goroutine was leaked.
func GoDaemon(site string, f func()) {
	Go(site, func() {
		markPendingTimer(true)
		f()
	})
}

func (s *Sim) start(g *G, f func()) {
	ready := make(chan struct{})
	go func() {
		id := gid()
		s.mu.Lock()
		s.byGoid[id] = g
		g.site = "start"
		s.parked[g.name] = g
		s.mu.Unlock()
		close(ready)
		<-g.gate
		defer func() {
			r := recover()
			if r != nil {
				if e, ok := r.(exitPanic); ok {
					s.mu.Lock()
					s.Exited = true
					s.ExitCode = e.code
					s.logLocked(fmt.Sprintf("exit %d by %s", e.code, g.name))
					s.mu.Unlock()
				} else if !s.dead.Load() {
					buf := make([]byte, 8192)
					n := runtime.Stack(buf, false)
					s.mu.Lock()
					s.PanicMsg = append(s.PanicMsg, fmt.Sprint(r))
					s.Panics = append(s.Panics, fmt.Sprintf("%s: %v\n%s", g.name, r, buf[:n]))
					s.logLocked(fmt.Sprintf("panic in %s: %v", g.name, r))
					s.mu.Unlock()
				}
			}
			s.mu.Lock()
			delete(s.byGoid, id)
			delete(s.live, g.name)
			delete(s.parked, g.name)
			s.mu.Unlock()
			select {
			case s.wake <- struct{}{}:
			default:
			}
		}()
		if s.dead.Load() {
			return
		}
		f()
	}()
	<-ready
}

// lockID finds the address of the sync.Mutex / sync.RWMutex that x.Lock()
// resolves to, given &x: through pointers and embedded fields.  0 = unknown.
var mutexType = reflect.TypeOf(sync.Mutex{})
var rwMutexType = reflect.TypeOf(sync.RWMutex{})

func lockID(p interface{}) (id uintptr) {
	defer func() {
		if recover() != nil {
			id = 0
		}
	}()
	return findMutex(reflect.ValueOf(p), 0)
}

func findMutex(v reflect.Value, depth int) uintptr {
	for v.Kind() == reflect.Ptr || v.Kind() == reflect.Interface {
		if v.IsNil() {
			return 0
		}
		if v.Kind() == reflect.Ptr && (v.Type().Elem() == mutexType || v.Type().Elem() == rwMutexType) {
			return v.Pointer()
		}
		v = v.Elem()
	}
	if v.Type() == mutexType || v.Type() == rwMutexType {
		if v.CanAddr() {
			return v.Addr().Pointer()
		}
		return 0
	}
	if v.Kind() != reflect.Struct || depth > 4 {
		return 0
	}
	for i := 0; i < v.NumField(); i++ {
		f := v.Type().Field(i)
		if !f.Anonymous {
			continue
		}
		fv := v.Field(i)
		switch {
		case f.Type == mutexType || f.Type == rwMutexType:
			if fv.CanAddr() {
				return fv.Addr().Pointer()
			}
		case f.Type.Kind() == reflect.Ptr && (f.Type.Elem() == mutexType || f.Type.Elem() == rwMutexType):
			if !fv.IsNil() {
				return fv.Pointer()
			}
		case f.Type.Kind() == reflect.Struct || f.Type.Kind() == reflect.Ptr:
			if id := findMutex(fv, depth+1); id != 0 {
				return id
			}
		}
	}
	return 0
}

// Lock emulates a blocking write-lock (or sync.Mutex) acquisition with
// try-locks, so that a goroutine can be preempted while it holds the lock and
// waiters are simply not eligible.  obj is &x for the call x.Lock(); try and
// lock are the method values x.TryLock and x.Lock.  A writer that has to wait
// is recorded as pending: as with the real sync.RWMutex, new readers then
// queue behind it (so a recursive read lock deadlocks as it does for real).
func Lock(site string, obj interface{}, try func() bool, lock func()) {
	s := cur.Load()
	var g *G
	if s != nil {
		g = s.me()
	}
	if g == nil {
		lock()
		return
	}
	id := lockID(obj)
	pending := false
	for {
		s.park(g, site)
		if try() {
			if pending {
				s.mu.Lock()
				s.pendingW[id]--
				s.mu.Unlock()
			}
			return
		}
		s.mu.Lock()
		g.waiting = true
		if !pending {
			s.LockContention++
			if id != 0 {
				s.pendingW[id]++
				pending = true
			}
		}
		s.mu.Unlock()
	}
}

// RLock is Lock for read locks (x.RLock()).
func RLock(site string, obj interface{}, try func() bool, lock func()) {
	s := cur.Load()
	var g *G
	if s != nil {
		g = s.me()
	}
	if g == nil {
		lock()
		return
	}
	id := lockID(obj)
	first := true
	for {
		s.park(g, site)
		s.mu.Lock()
		blocked := id != 0 && s.pendingW[id] > 0
		s.mu.Unlock()
		if !blocked && try() {
			return
		}
		s.mu.Lock()
		g.waiting = true
		if first {
			s.LockContention++
			if blocked {
				s.ReaderBehindWriter++
			}
			first = false
		}
		s.mu.Unlock()
	}
}

// Unlocked must be called right after a lock was released: every waiter
// becomes eligible again and retries.
func Unlocked() {
	s := cur.Load()
	if s == nil {
		return
	}
	s.mu.Lock()
	for _, g := range s.live {
		g.waiting = false
	}
	s.mu.Unlock()
	select {
	case s.wake <- struct{}{}:
	default:
	}
}

// Outcome of Run.
const (
	Done      = "done"      // quiescent (or everything finished) after the root returned
	Deadlock  = "deadlock"  // quiescent, the root function never returned
	Budget    = "budget"    // step budget exhausted
	Panic     = "panic"     // a gated goroutine panicked
	Exit_     = "exit"      // rt.Exit was called
	Abandoned = "abandoned" // given up after too much real time (inconclusive, never reported)
)

const idleHorizon = 12 * time.Hour

// Run executes root as goroutine "main" under the scheduler.  It must be
// called on the root goroutine of a synctest bubble.
func (s *Sim) Run(root func()) string {
	cur.Store(s)
	defer cur.Store(nil)
	defer s.kill()
	s.Start = time.Now()
	if s.Budget < 150000 {
		s.Budget = 150000 // a livelock burns this in well under a second; anything legitimate stays far below it between two progress events
	}
	s.wake = make(chan struct{}, 1)
	g := &G{name: "main", gate: make(chan struct{})}
	s.live[g.name] = g
	s.Names = append(s.Names, g.name)
	s.start(g, func() {
		root()
		s.rootDone.Store(true)
		s.mu.Lock()
		s.RootDoneStep = s.Steps
		s.logLocked("root returned")
		s.mu.Unlock()
	})
	idle := time.NewTimer(idleHorizon)
	defer idle.Stop()
	for {
		synctest.Wait()
		s.mu.Lock()
		if len(s.Panics) > 0 {
			s.mu.Unlock()
			return Panic
		}
		if s.Exited {
			s.mu.Unlock()
			return Exit_
		}
		names := make([]string, 0, len(s.parked))
		now := time.Now()
		var thaw time.Time
		for n, g := range s.parked {
			if g.waiting {
				continue
			}
			if now.Before(g.frozen) {
				if thaw.IsZero() || g.frozen.Before(thaw) {
					thaw = g.frozen
				}
				continue
			}
			names = append(names, n)
		}
		if len(names) == 0 && !thaw.IsZero() {
			// only frozen goroutines are left: let the clock run to the first thaw (or
			// to an earlier timer of somebody who sleeps)
			s.mu.Unlock()
			idle.Reset(thaw.Sub(now))
			select {
			case <-s.wake:
			case <-idle.C:
			}
			s.IdleJumps++
			GlobalSteps.Add(1)
			continue
		}
		if len(names) == 0 {
			nlive := 0
			for _, g := range s.live {
				if !g.pendingTimer {
					nlive++
				}
			}
			nparked := len(s.parked)
			s.mu.Unlock()
			if nlive == 0 {
				return Done
			}
			// (Goroutines that wait for a lock are treated like blocked ones: whoever
			// holds the lock may be asleep or blocked outside the scheduler's view and
			// release it later; only if nothing at all happens until the idle horizon
			// is this a deadlock.)
			_ = nparked
			// Idle: let the bubble clock advance to the next timer of a sleeper,
			// or declare quiescence when nothing happens for idleHorizon.
			idle.Reset(idleHorizon)
			select {
			case <-s.wake:
				s.IdleJumps++
				GlobalSteps.Add(1)
				continue
			case <-idle.C:
				if s.rootDone.Load() {
					return Done
				}
				return Deadlock
			}
		}
		sort.Strings(names)
		// candidate order: the goroutine that ran last first (index 0 = no context switch)
		if s.last != "" {
			for i, n := range names {
				if n == s.last {
					copy(names[1:i+1], names[:i])
					names[0] = s.last
					break
				}
			}
		}
		if s.sinceProgress >= s.Budget {
			s.mu.Unlock()
			return Budget
		}
		if Abandon.Load() {
			s.WasAbandoned = true
			s.mu.Unlock()
			return Abandoned
		}
		if s.Freeze && len(names) > 1 && s.FreezeCount < maxFreezes {
			// stall one of the eligible goroutines where it stands
			if k := s.T.DW(40, 1); k == 1 {
				v := names[s.T.D(len(names))]
				d := []time.Duration{time.Millisecond, 150 * time.Millisecond, 700 * time.Millisecond, 3 * time.Second, 2 * time.Minute}[s.T.D(5)]
				s.parked[v].frozen = now.Add(d)
				s.FreezeCount++
				s.logLocked(fmt.Sprintf("freeze %s for %v at %s", v, d, s.parked[v].site))
				s.mu.Unlock()
				continue
			}
		}
		idx := s.T.DF(len(names), func(r *Rand) int { return s.strategyPick(names) })
		pick := names[idx]
		pg := s.parked[pick]
		delete(s.parked, pick)
		s.Steps++
		s.Active = now.Sub(s.Start) // simulated time at the last scheduling step (idle horizons at the end of a run are not "covered" time)
		s.sinceProgress++
		GlobalSteps.Add(1)
		if pick != s.last {
			s.Switches++
			s.last = pick
		}
		s.logLocked(pick + " @ " + pg.site)
		s.mu.Unlock()
		pg.gate <- struct{}{}
	}
}

// maxFreezes bounds the stalled-goroutine faults of one run: every long stall
// lets periodic timers of the code under test burn scheduling steps without
// any operation completing, and the step budget must stay a statement about
// the code, not about how often the simulator stalled it.
const maxFreezes = 6

// strategyPick implements the generation-mode scheduling strategies.  names[0]
// is the goroutine that ran last if it is still eligible.
func (s *Sim) strategyPick(names []string) int {
	a := s.T.Aux
	n := len(names)
	if n == 1 {
		return 0
	}
	switch s.Strategy {
	case StratSticky:
		if names[0] == s.last && a.intn(s.stickyNum) != 0 {
			return 0
		}
		return a.intn(n)
	case StratPCT:
		for _, c := range s.pctChanges {
			if c == s.Steps {
				// priority change point: demote the goroutine that ran last
				if g := s.parked[s.last]; g != nil {
					g.prio = -s.Steps
				}
			}
		}
		best, bi := 0, -1
		for i, nm := range names {
			g := s.parked[nm]
			if !g.hasPrio {
				g.prio = 1 + a.intn(1<<20)
				g.hasPrio = true
			}
			if bi < 0 || g.prio > best {
				best, bi = g.prio, i
			}
		}
		return bi
	case StratStarve:
		if s.starveKey != "" && (s.starveOneIn == 0 || a.intn(s.starveOneIn) != 0) {
			var ok []int
			for i, nm := range names {
				if !strings.Contains(nm, s.starveKey) {
					ok = append(ok, i)
				}
			}
			if len(ok) > 0 {
				return ok[a.intn(len(ok))]
			}
		}
		return a.intn(n)
	case StratRoundRobin:
		// the lexicographically next name after the last one run
		if names[0] == s.last {
			if n > 1 {
				// names[1:] sorted; pick first greater than last, else names[1]
				for i := 1; i < n; i++ {
					if names[i] > s.last {
						return i
					}
				}
				return 1
			}
		}
		return 0
	}
	return a.intn(n)
}

// kill releases every parked goroutine of a finished run so that it unwinds
// (Goexit) instead of leaking; goroutines blocked in real channel operations
// stay behind and are reclaimed when the worker process is recycled.
func (s *Sim) kill() {
	s.dead.Store(true)
	s.mu.Lock()
	var gs []*G
	for _, g := range s.parked {
		gs = append(gs, g)
	}
	s.parked = map[string]*G{}
	s.mu.Unlock()
	for _, g := range gs {
		select {
		case g.gate <- struct{}{}:
		default:
			// not yet waiting on its gate (cannot happen after Wait) – close instead
			close(g.gate)
		}
	}
	// let the released goroutines unwind before the caller looks at anything
	synctest.Wait()
}

func (s *Sim) RootDone() bool { return s.rootDone.Load() }

// markPendingTimer flags the calling gated goroutine as a timer that waits to fire.
func markPendingTimer(v bool) {
	if s := cur.Load(); s != nil {
		if g := s.me(); g != nil {
			s.mu.Lock()
			g.pendingTimer = v
			s.mu.Unlock()
		}
	}
}

// Live returns the names of gated goroutines that have not finished (timers
// that merely wait to fire are not goroutines of the program and are left out).
func (s *Sim) Live() []string {
	s.mu.Lock()
	defer s.mu.Unlock()
	var r []string
	for n, g := range s.live {
		if g.pendingTimer {
			continue
		}
		r = append(r, n)
	}
	sort.Strings(r)
	return r
}

// SimNow returns the bubble time elapsed since Run started.
func (s *Sim) Elapsed() time.Duration { return time.Since(s.Start) }

// ---- simulated standard streams -------------------------------------------

type Stream struct{ fd int }

var (
	Stdin  = &Stream{0}
	Stdout = &Stream{1}
	Stderr = &Stream{2}
)

func (st *Stream) Read(p []byte) (int, error) {
	s := cur.Load()
	if s == nil || s.me() == nil {
		return os.Stdin.Read(p)
	}
	if st.fd != 0 || s.StdinR == nil {
		return 0, io.EOF
	}
	return s.StdinR.Read(p)
}

func (st *Stream) Write(p []byte) (int, error) {
	s := cur.Load()
	if s == nil || s.me() == nil {
		if st.fd == 2 {
			return os.Stderr.Write(p)
		}
		return os.Stdout.Write(p)
	}
	var w io.Writer
	if st.fd == 1 {
		w = s.StdoutW
	} else {
		w = s.StderrW
	}
	if w == nil {
		return len(p), nil
	}
	return w.Write(p)
}

func (st *Stream) WriteString(x string) (int, error) { return st.Write([]byte(x)) }
func (st *Stream) Close() error                      { return nil }
func (st *Stream) Fd() uintptr                       { return uintptr(st.fd) }
func (st *Stream) Name() string {
	return [...]string{"/dev/stdin", "/dev/stdout", "/dev/stderr"}[st.fd]
}
func (st *Stream) Sync() error { return nil }
