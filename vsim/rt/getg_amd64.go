package rt

func getg() uintptr

func gid() uintptr { return getg() }
