//go:build !amd64

package rt

import (
	"bytes"
	"runtime"
	"strconv"
)

// gid falls back to parsing the goroutine id out of a stack dump.
func gid() uintptr {
	var buf [64]byte
	n := runtime.Stack(buf[:], false)
	b := buf[len("goroutine "):n]
	i := bytes.IndexByte(b, ' ')
	id, _ := strconv.ParseInt(string(b[:i]), 10, 64)
	return uintptr(id)
}
