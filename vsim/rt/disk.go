package rt

import (
	"io"
	"os"
	"sync/atomic"
)

// The disk seam.  The overlay copy of go-tools/dailylogger hands every file it
// opens to WrapFile; a harness that wants a simulated disk in front of the
// real temporary file installs a hook for the duration of a run.

type FileHook func(name string, f *os.File) io.Writer

var fileHook atomic.Pointer[FileHook]

// DiskSeamPresent is set by the first WrapFile call: the instrumented
// dependency is in the build (a probe for the harnesses).
var DiskSeamPresent atomic.Bool

func SetFileHook(h FileHook) {
	if h == nil {
		fileHook.Store(nil)
		return
	}
	fileHook.Store(&h)
}

func WrapFile(name string, f *os.File) io.Writer {
	DiskSeamPresent.Store(true)
	if h := fileHook.Load(); h != nil && f != nil {
		return (*h)(name, f)
	}
	return f
}
