package rt

// The choice tape: the single source of every decision made in a simulated
// run.  It has two streams.  Scen holds the decisions that shape the workload
// (scenario, faults, configuration) and is consumed before the run starts;
// Dyn holds the decisions taken while the run proceeds (which goroutine runs
// next, how many bytes a read returns, ...).  In generation mode the cells
// come from a PRNG seeded from one integer and are recorded; in replay mode
// they come from the recorded cells.  In both modes 0 is the simplest choice,
// cells past the end of a replayed stream read as 0 and a cell larger than
// the current range is clipped to the largest legal value, so a tape can be
// truncated, zeroed or lowered cell by cell and still be a valid run.

type prng struct{ s [4]uint64 }

func splitmix(x *uint64) uint64 {
	*x += 0x9e3779b97f4a7c15
	z := *x
	z = (z ^ (z >> 30)) * 0xbf58476d1ce4e5b9
	z = (z ^ (z >> 27)) * 0x94d049bb133111eb
	return z ^ (z >> 31)
}

func newPRNG(seed uint64) *prng {
	p := &prng{}
	x := seed
	for i := range p.s {
		p.s[i] = splitmix(&x)
	}
	return p
}

func rotl(x uint64, k uint) uint64 { return (x << k) | (x >> (64 - k)) }

// xoshiro256**
func (p *prng) next() uint64 {
	s := &p.s
	r := rotl(s[1]*5, 7) * 9
	t := s[1] << 17
	s[2] ^= s[0]
	s[3] ^= s[1]
	s[1] ^= s[2]
	s[0] ^= s[3]
	s[2] ^= t
	s[3] = rotl(s[3], 45)
	return r
}

func (p *prng) intn(n int) int {
	if n <= 1 {
		return 0
	}
	return int(p.next() % uint64(n))
}

// Mix derives a run seed from the check seed, a salt and a run index.
func Mix(seed uint64, salt string, idx uint64) uint64 {
	x := seed ^ 0x51a5ca1ab1e5eed
	for _, c := range []byte(salt) {
		x = x*1099511628211 ^ uint64(c)
	}
	splitmix(&x)
	x ^= idx * 0x9e3779b97f4a7c15
	return splitmix(&x)
}

type Tape struct {
	Seed   uint64
	Replay bool
	genDyn bool     // replayed scenario, generated dynamic stream
	scen   []uint32 // input cells in replay mode
	dyn    []uint32
	si, di int
	// effective cells: what was actually used (after clipping), recorded in both modes
	EffScen []uint32
	EffDyn  []uint32
	rng     *prng // scenario stream
	drng    *prng // dynamic stream
	Aux     *prng // strategies; never recorded, never used in replay decisions
}

func NewGenTape(seed uint64) *Tape {
	x := seed
	return &Tape{Seed: seed, rng: newPRNG(splitmix(&x)), drng: newPRNG(splitmix(&x)), Aux: newPRNG(splitmix(&x))}
}

func NewReplayTape(scen, dyn []uint32) *Tape {
	return &Tape{Replay: true, scen: scen, dyn: dyn, Aux: newPRNG(1)}
}

// NewMixedTape replays the scenario stream and generates the dynamic stream
// (schedule, chunk sizes) from a PRNG: used by the minimiser to look for a new
// schedule after it simplified the scenario.
func NewMixedTape(scen []uint32, seed uint64) *Tape {
	x := seed
	return &Tape{Replay: true, genDyn: true, scen: scen, drng: newPRNG(splitmix(&x)), Aux: newPRNG(splitmix(&x))}
}

func clip(c uint32, n int) int {
	if n <= 1 {
		return 0
	}
	if int64(c) >= int64(n) {
		return n - 1
	}
	return int(c)
}

// S draws a scenario choice in [0,n), uniformly in generation mode.
func (t *Tape) S(n int) int { return t.SF(n, nil) }

// SF draws a scenario choice in [0,n); in generation mode gen (if not nil)
// produces the value from the PRNG (for biased distributions).
func (t *Tape) SF(n int, gen func(r *Rand) int) int {
	if n <= 1 {
		// still consumes a cell so that tapes stay aligned when n varies
		n = 1
	}
	var v int
	if t.Replay {
		if t.si < len(t.scen) {
			v = clip(t.scen[t.si], n)
		}
		t.si++
	} else {
		if gen != nil {
			v = gen(&Rand{t.rng})
			if v < 0 {
				v = 0
			}
			if v >= n {
				v = n - 1
			}
		} else {
			v = t.rng.intn(n)
		}
	}
	t.EffScen = append(t.EffScen, uint32(v))
	return v
}

// D draws a dynamic choice in [0,n).
func (t *Tape) D(n int) int { return t.DF(n, nil) }

func (t *Tape) DF(n int, gen func(r *Rand) int) int {
	if n <= 1 {
		n = 1
	}
	var v int
	if t.Replay && !t.genDyn {
		if t.di < len(t.dyn) {
			v = clip(t.dyn[t.di], n)
		}
		t.di++
	} else {
		if gen != nil {
			v = gen(&Rand{t.drng})
			if v < 0 {
				v = 0
			}
			if v >= n {
				v = n - 1
			}
		} else {
			v = t.drng.intn(n)
		}
	}
	t.EffDyn = append(t.EffDyn, uint32(v))
	return v
}

// Rand is the view of the PRNG handed to biased generators.
type Rand struct{ p *prng }

func (r *Rand) Intn(n int) int           { return r.p.intn(n) }
func (r *Rand) Uint64() uint64           { return r.p.next() }
func (r *Rand) Chance(num, den int) bool { return r.p.intn(den) < num }

// Weighted returns an index drawn with the given weights.
func (r *Rand) Weighted(w ...int) int {
	tot := 0
	for _, x := range w {
		tot += x
	}
	k := r.p.intn(tot)
	for i, x := range w {
		if k < x {
			return i
		}
		k -= x
	}
	return len(w) - 1
}

// SW: weighted scenario choice among len(w) alternatives (index 0 = simplest).
// Alternatives with weight 0 are not part of the choice at all: the tape cell
// indexes the alternatives with a positive weight, so a shrunk or edited tape
// can never select something the generator would never produce.
func (t *Tape) SW(w ...int) int {
	idx, ww := positive(w)
	return idx[t.SF(len(idx), func(r *Rand) int { return r.Weighted(ww...) })]
}

func positive(w []int) (idx, ww []int) {
	for i, x := range w {
		if x > 0 {
			idx = append(idx, i)
			ww = append(ww, x)
		}
	}
	if len(idx) == 0 {
		return []int{0}, []int{1}
	}
	return
}

// SBool: true with probability num/den in generation mode; 0 (false) is simplest.
func (t *Tape) SBool(num, den int) bool {
	return t.SF(2, func(r *Rand) int {
		if r.Chance(num, den) {
			return 1
		}
		return 0
	}) == 1
}

// SBytes draws n scenario bytes.
func (t *Tape) SBytes(n int) []byte {
	b := make([]byte, n)
	for i := range b {
		b[i] = byte(t.S(256))
	}
	return b
}

func (t *Tape) DW(w ...int) int {
	idx, ww := positive(w)
	return idx[t.DF(len(idx), func(r *Rand) int { return r.Weighted(ww...) })]
}
