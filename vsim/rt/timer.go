package rt

import (
	"sync"
	"time"
)

// Simulated timers with the LEGACY channel semantics (Go < 1.23: the channel
// has a buffer of one, and neither Stop nor Reset removes a tick that has
// already been delivered to it).  The repository's go.mod says `go 1.16`, so
// its programs run with GODEBUG asynctimerchan=1 and get exactly these
// semantics in production — while testing/synctest insists on the new ones
// (asynctimerchan=0).  vsim-instr therefore rewrites time.NewTimer, time.After,
// time.AfterFunc, time.NewTicker, time.Tick and the types time.Timer /
// time.Ticker to the versions below (which sleep on the bubble's fake clock),
// so that a stale tick behaves in the simulation as it does for real.

type Timer struct {
	C      <-chan time.Time
	c      chan time.Time
	mu     sync.Mutex
	gen    int
	live   bool
	f      func()
	cancel chan struct{}
}

func (t *Timer) arm(d time.Duration) {
	t.gen++
	gen := t.gen
	t.live = true
	if t.f != nil {
		// A timer FUNCTION runs user code, so it must be a gated goroutine like any
		// other (an un-gated one blocking on a real mutex held by a parked goroutine
		// would stall the whole bubble).  The goroutine is created now, by the caller,
		// sleeps on the bubble clock and can be cancelled by Stop/Reset.
		cancel := make(chan struct{})
		t.cancel = cancel
		f := t.f
		Go("timer func", func() {
			tm := time.NewTimer(d)
			markPendingTimer(true)
			select {
			case <-tm.C:
			case <-cancel:
				tm.Stop()
				return
			}
			markPendingTimer(false)
			Yield("timer fired")
			t.mu.Lock()
			ok := t.gen == gen && t.live
			if ok {
				t.live = false
			}
			t.mu.Unlock()
			if ok {
				f()
			}
		})
		return
	}
	go func() {
		if d > 0 {
			time.Sleep(d)
		}
		t.mu.Lock()
		if t.gen != gen || !t.live {
			t.mu.Unlock()
			return
		}
		t.live = false
		t.mu.Unlock()
		select {
		case t.c <- time.Now():
		default:
		}
	}()
}

func (t *Timer) disarm() {
	if t.cancel != nil {
		close(t.cancel)
		t.cancel = nil
	}
}

func NewTimer(d time.Duration) *Timer {
	c := make(chan time.Time, 1)
	t := &Timer{C: c, c: c}
	t.mu.Lock()
	t.arm(d)
	t.mu.Unlock()
	return t
}

func AfterFunc(d time.Duration, f func()) *Timer {
	t := &Timer{f: f}
	t.mu.Lock()
	t.arm(d)
	t.mu.Unlock()
	return t
}

func After(d time.Duration) <-chan time.Time { return NewTimer(d).C }

// Stop prevents the timer from firing; true if it was still active.  A tick
// already in the channel stays there (legacy semantics).
func (t *Timer) Stop() bool {
	t.mu.Lock()
	defer t.mu.Unlock()
	was := t.live
	t.live = false
	t.gen++
	t.disarm()
	return was
}

// Reset re-arms the timer; true if it had been active.  A tick already in the
// channel stays there (legacy semantics).
func (t *Timer) Reset(d time.Duration) bool {
	t.mu.Lock()
	defer t.mu.Unlock()
	was := t.live
	t.disarm()
	t.arm(d)
	return was
}

type Ticker struct {
	C    <-chan time.Time
	c    chan time.Time
	mu   sync.Mutex
	gen  int
	live bool
}

func (t *Ticker) run(d time.Duration, gen int) {
	go func() {
		for {
			time.Sleep(d)
			t.mu.Lock()
			ok := t.live && t.gen == gen
			t.mu.Unlock()
			if !ok {
				return
			}
			select {
			case t.c <- time.Now():
			default:
			}
		}
	}()
}

func NewTicker(d time.Duration) *Ticker {
	if d <= 0 {
		panic("non-positive interval for NewTicker")
	}
	c := make(chan time.Time, 1)
	t := &Ticker{C: c, c: c, live: true}
	t.run(d, 0)
	return t
}

func Tick(d time.Duration) <-chan time.Time {
	if d <= 0 {
		return nil
	}
	return NewTicker(d).C
}

func (t *Ticker) Stop() {
	t.mu.Lock()
	t.live = false
	t.mu.Unlock()
}

func (t *Ticker) Reset(d time.Duration) {
	t.mu.Lock()
	t.gen++
	gen := t.gen
	t.live = true
	t.mu.Unlock()
	t.run(d, gen)
}
