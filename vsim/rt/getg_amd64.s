#include "textflag.h"

// func getg() uintptr
// The address of the running goroutine's descriptor: a cheap, stable identity
// for as long as the goroutine lives (runtime.Stack costs ~25 µs per call).
TEXT ·getg(SB),NOSPLIT,$0-8
	MOVQ (TLS), AX
	MOVQ AX, ret+0(FP)
	RET
