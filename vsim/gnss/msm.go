package gnss

import (
	"math/bits"

	"verif/vsim/rt"
)

// MSM payload builder (layout from the RTCM 10403.3 MSM header: 12 type, 12
// station, 30 epoch time, 1 multiple-message, 3 IODS, 7 reserved, 2 clock
// steering, 2 external clock, 1 smoothing, 3 smoothing interval, 64 satellite
// mask, 32 signal mask, nsat*nsig cell mask, then satellite and signal data).

type MSMSpec struct {
	Type      int
	Station   int
	Timestamp uint32 // 30 bits
	Multiple  bool
	SatMask   uint64
	SigMask   uint32
	CellMask  []bool // nsat*nsig entries
	BodyBits  int    // -1: exactly what the masks require; otherwise this many bits of satellite+signal data
	Pad       int    // zero bytes appended
	RandBody  bool
}

func IsMSM7(typ int) bool { return typ%10 == 7 }

// BodyBitsFor returns the number of bits of satellite and signal data that
// nsat satellites and ncell cells need for the MSM type.
func BodyBitsFor(typ, nsat, ncell int) int {
	if IsMSM7(typ) {
		return nsat*36 + ncell*80
	}
	return nsat*18 + ncell*48
}

// BuildMSM encodes the spec; body bits come from the tape when RandBody is
// set, zero otherwise.
func BuildMSM(t *rt.Tape, sp MSMSpec) []byte {
	nsat := bits.OnesCount64(sp.SatMask)
	nsig := bits.OnesCount32(sp.SigMask)
	ncm := nsat * nsig
	ncell := 0
	for i := 0; i < ncm && i < len(sp.CellMask); i++ {
		if sp.CellMask[i] {
			ncell++
		}
	}
	body := sp.BodyBits
	if body < 0 {
		body = BodyBitsFor(sp.Type, nsat, ncell)
	}
	total := 169 + ncm + body
	buf := make([]byte, (total+7)/8+sp.Pad)
	pos := 0
	put := func(n int, v uint64) { PutBits(buf, pos, n, v); pos += n }
	put(12, uint64(sp.Type))
	put(12, uint64(sp.Station))
	put(30, uint64(sp.Timestamp))
	if sp.Multiple {
		put(1, 1)
	} else {
		put(1, 0)
	}
	put(3, 0) // IODS
	put(7, 0) // reserved
	put(2, 0) // clock steering
	put(2, 0) // external clock
	put(1, 0) // smoothing
	put(3, 0) // smoothing interval
	put(64, sp.SatMask)
	put(32, uint64(sp.SigMask))
	for i := 0; i < ncm; i++ {
		v := uint64(0)
		if i < len(sp.CellMask) && sp.CellMask[i] {
			v = 1
		}
		put(1, v)
	}
	if sp.RandBody && t != nil && sp.BodyBits < 0 {
		// field-aware body: every field drawn with a bias to the special values
		// (zero, the "invalid" marker = minimum of the width, maximum, all ones)
		mode := t.SW(3, 2, 1) // independent fields, mostly-special fields, everything invalid
		for _, fl := range bodyFields(sp.Type, nsat, ncell) {
			for i := 0; i < fl[0]; i++ {
				w := uint(fl[1])
				var v uint64
				k := 0
				switch mode {
				case 0:
					k = t.SW(6, 1, 1, 1, 1)
				case 1:
					k = t.SW(1, 2, 3, 1, 1)
				default:
					k = 2
				}
				switch k {
				case 0:
					v = uint64(t.S(1 << min(w, 24)))
					if w > 24 {
						v = v<<(w-24) | uint64(t.S(1<<(w-24)))
					}
				case 1:
					v = 0
				case 2:
					v = 1 << (w - 1) // minimum of a signed field / top bit of an unsigned one
					if w == 8 {
						v = 0xff // the whole-millisecond "invalid" marker
					}
				case 3:
					v = 1<<(w-1) - 1
				default:
					v = 1<<w - 1
				}
				put(int(w), v)
			}
		}
	} else if sp.RandBody && t != nil {
		for b := 0; b < body; b += 8 {
			n := 8
			if body-b < 8 {
				n = body - b
			}
			put(n, uint64(t.S(1<<uint(n))))
		}
	}
	return buf
}

// bodyFields lists (count, width) of the field-major arrays that follow the header.
func bodyFields(typ, nsat, ncell int) [][2]int {
	if IsMSM7(typ) {
		return [][2]int{{nsat, 8}, {nsat, 4}, {nsat, 10}, {nsat, 14}, {ncell, 20}, {ncell, 24}, {ncell, 10}, {ncell, 1}, {ncell, 10}, {ncell, 15}}
	}
	return [][2]int{{nsat, 8}, {nsat, 10}, {ncell, 15}, {ncell, 22}, {ncell, 4}, {ncell, 1}, {ncell, 6}}
}

// GenMSMSpec draws a well-formed MSM message shape (at most 64 cells).
func GenMSMSpec(t *rt.Tape, typ int, ts uint32) MSMSpec {
	sp := MSMSpec{Type: typ, Station: t.S(4096), Timestamp: ts, BodyBits: -1, RandBody: true}
	nsat := 1 + t.S(6)
	nsig := 1 + t.S(3)
	for i := 0; i < nsat; i++ {
		sp.SatMask |= 1 << uint(63-t.S(40))
	}
	for i := 0; i < nsig; i++ {
		sp.SigMask |= 1 << uint(31-t.S(24))
	}
	n := bits.OnesCount64(sp.SatMask) * bits.OnesCount32(sp.SigMask)
	sp.CellMask = make([]bool, n)
	any := false
	for i := range sp.CellMask {
		sp.CellMask[i] = t.S(3) != 0
		any = any || sp.CellMask[i]
	}
	if !any && n > 0 {
		sp.CellMask[0] = true
	}
	sp.Multiple = t.S(4) == 0
	return sp
}

// GenHostilePayload draws a payload for a decodable type that is
// CRC-valid on the wire but short, inconsistent or hostile: masks announcing
// more cells than fit, truncated bodies, random bits, illegal timestamps.
func GenHostilePayload(t *rt.Tape, typ int) []byte {
	if typ == 1005 || typ == 1006 {
		want := 19
		if typ == 1006 {
			want = 21
		}
		n := want
		switch t.SW(3, 3, 2) {
		case 0:
			n = 1 + t.S(want+4)
		case 1:
			n = want + t.S(3) - 1
		default:
			n = GenLen(t, 4, 0)
		}
		if n < 1 {
			n = 1
		}
		return GenPayload(t, typ, n)
	}
	switch t.SW(3, 4, 2) {
	case 0:
		return GenPayload(t, typ, GenLen(t, 4, 0))
	case 1:
		ts := uint32(t.S(1 << 30))
		if t.S(3) == 0 {
			ts = 604800000 + uint32(t.S(100000)) // illegal for GPS-like; GLONASS day 4+
		}
		if t.S(6) == 0 {
			ts = 7<<27 | uint32(t.S(1<<27)) // GLONASS day 7
		}
		sp := MSMSpec{Type: typ, Station: t.S(4096), Timestamp: ts, RandBody: true, Multiple: t.S(2) == 0}
		switch t.SW(3, 2, 2) {
		case 0: // many satellites and signals: more than 64 cells announced
			sp.SatMask = ^uint64(0) >> uint(t.S(56))
			sp.SigMask = ^uint32(0) >> uint(t.S(28))
		case 1:
			sp.SatMask = uint64(t.S(1<<16))<<48 | uint64(t.S(1<<16))
			sp.SigMask = uint32(t.S(1 << 16))
		default:
			w := GenMSMSpec(t, typ, ts)
			sp.SatMask, sp.SigMask = w.SatMask, w.SigMask
		}
		n := bits.OnesCount64(sp.SatMask) * bits.OnesCount32(sp.SigMask)
		if n > 200 {
			n = 200
		}
		sp.CellMask = make([]bool, n)
		mode := t.S(3)
		for i := range sp.CellMask {
			sp.CellMask[i] = mode == 0 || (mode == 1 && t.S(2) == 0)
		}
		ncell := 0
		for _, c := range sp.CellMask {
			if c {
				ncell++
			}
		}
		need := BodyBitsFor(typ, bits.OnesCount64(sp.SatMask), ncell)
		switch t.SW(2, 3, 2, 1) {
		case 0:
			sp.BodyBits = -1
		case 1: // body too short
			sp.BodyBits = t.S(need + 1)
		case 2: // a little off
			sp.BodyBits = need + t.S(17) - 8
			if sp.BodyBits < 0 {
				sp.BodyBits = 0
			}
		default:
			sp.BodyBits = need + t.S(400)
		}
		sp.Pad = t.SW(4, 1, 1) * (1 + t.S(5))
		p := BuildMSM(t, sp)
		if len(p) > 1023 {
			p = p[:1023]
		}
		return p
	default:
		// a well-formed message, then truncated somewhere
		p := BuildMSM(t, GenMSMSpec(t, typ, uint32(t.S(604800000))))
		if len(p) > 1023 {
			p = p[:1023]
		}
		k := 1 + t.S(len(p))
		return p[:k]
	}
}

// GenDecodableFrame draws a well-formed frame of a decodable type (for the
// hidden-state property): 1005, 1006 or an MSM with consistent masks and body.
func GenDecodableFrame(t *rt.Tape) Segment {
	typ := DecodableTypes[t.S(len(DecodableTypes))]
	var p []byte
	switch typ {
	case 1005:
		p = GenPayload(t, typ, 19)
	case 1006:
		p = GenPayload(t, typ, 21)
	default:
		p = BuildMSM(t, GenMSMSpec(t, typ, uint32(t.S(604800000))))
	}
	if len(p) > 1023 {
		p = p[:1023]
	}
	f := Frame(p)
	return Segment{Kind: KindFrame, Bytes: f, Type: TypeOf(f)}
}

// GenHostileFrame wraps a hostile payload in a CRC-valid frame.
func GenHostileFrame(t *rt.Tape) Segment {
	typ := DecodableTypes[t.S(len(DecodableTypes))]
	p := GenHostilePayload(t, typ)
	if len(p) == 0 {
		p = []byte{byte(typ >> 4)}
	}
	f := Frame(p)
	return Segment{Kind: KindFrame, Bytes: f, Type: TypeOf(f)}
}
