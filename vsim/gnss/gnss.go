// Package gnss is the simulated GNSS device, the NMEA/UBX talker that shares
// its line, and the line itself (transmission faults).  It owns the ground
// truth the oracles compare against.  Nothing in this package calls into the
// repository: the CRC-24Q is an independent bit-serial implementation.
package gnss

import (
	"encoding/hex"
	"fmt"
	"hash/fnv"

	"verif/vsim/rt"
)

// CRC24Q is a bit-serial CRC-24Q (polynomial 0x1864CFB, initial value 0), as
// specified by the RTCM 10403 standard.
func CRC24Q(data []byte) uint32 {
	var crc uint32
	for _, b := range data {
		crc ^= uint32(b) << 16
		for i := 0; i < 8; i++ {
			crc <<= 1
			if crc&0x1000000 != 0 {
				crc ^= 0x1864CFB
			}
		}
	}
	return crc & 0xFFFFFF
}

// Frame wraps a payload (1..1023 bytes) in an RTCM3 frame.
func Frame(payload []byte) []byte {
	n := len(payload)
	f := make([]byte, 0, n+6)
	f = append(f, 0xD3, byte(n>>8)&0x03, byte(n))
	f = append(f, payload...)
	c := CRC24Q(f)
	return append(f, byte(c>>16), byte(c>>8), byte(c))
}

// IsValidFrame is the frame-shape predicate of property C01, written from the
// property text: preamble 0xD3, six zero reserved bits, non-zero 10-bit length
// equal to the payload size, trailing CRC-24Q over all preceding bytes.
func IsValidFrame(b []byte) bool {
	if len(b) < 7 || b[0] != 0xD3 || b[1]&0xFC != 0 {
		return false
	}
	l := int(b[1]&3)<<8 | int(b[2])
	if l == 0 || len(b) != l+6 {
		return false
	}
	c := CRC24Q(b[:l+3])
	return b[l+3] == byte(c>>16) && b[l+4] == byte(c>>8) && b[l+5] == byte(c)
}

// TypeOf returns the 12 bits that follow the leader.
func TypeOf(frame []byte) int {
	if len(frame) < 5 {
		return -1
	}
	return int(frame[3])<<4 | int(frame[4])>>4
}

// PutBits writes the low n bits of v at bit position pos (MSB first).
func PutBits(buf []byte, pos, n int, v uint64) {
	for i := 0; i < n; i++ {
		bit := (v >> uint(n-1-i)) & 1
		p := pos + i
		if bit != 0 {
			buf[p/8] |= 0x80 >> uint(p%8)
		} else {
			buf[p/8] &^= 0x80 >> uint(p%8)
		}
	}
}

// Twin returns a different valid frame with the same leader, the same message
// type and the SAME CRC-24Q as the given valid frame (nil if the payload is too
// short).  Some payload bits after the type are changed and the last three
// payload bytes are then solved for, using the linearity of the CRC: anything
// that identifies a frame by its checksum alone confuses the two.
func Twin(t *rt.Tape, frame []byte) []byte {
	n := len(frame) - 6
	if !IsValidFrame(frame) || n < 6 {
		return nil
	}
	b := append([]byte(nil), frame...)
	// change 1..3 bytes between the type and the three solving bytes
	lo, hi := 3+2, 3+n-3 // [lo,hi) are free payload bytes
	for k := 1 + t.S(3); k > 0; k-- {
		b[lo+t.S(hi-lo)] ^= byte(1 + t.S(255))
	}
	for i := hi; i < hi+3; i++ {
		b[i] = 0
	}
	want := uint32(frame[3+n])<<16 | uint32(frame[3+n+1])<<8 | uint32(frame[3+n+2])
	diff := CRC24Q(b[:3+n]) ^ want
	// crc(prefix||x) = crc(prefix||000) xor M(x), M linear and invertible: solve M(x) = diff
	var col [24]uint32
	for i := 0; i < 24; i++ {
		var x [3]byte
		x[i/8] = 0x80 >> uint(i%8)
		col[i] = CRC24Q(x[:])
	}
	// Gaussian elimination over GF(2) on the 24x24 system sum_i x_i*col[i] = diff
	type row struct{ mask, val uint32 } // mask: which x_i, val: resulting crc bits
	var basis [24]row
	var have [24]bool
	for i := 0; i < 24; i++ {
		r := row{1 << uint(i), col[i]}
		for bit := 23; bit >= 0; bit-- {
			if r.val>>uint(bit)&1 == 0 {
				continue
			}
			if !have[bit] {
				basis[bit], have[bit] = r, true
				break
			}
			r.mask ^= basis[bit].mask
			r.val ^= basis[bit].val
		}
	}
	var sol uint32
	v := diff
	for bit := 23; bit >= 0; bit-- {
		if v>>uint(bit)&1 == 1 {
			if !have[bit] {
				return nil
			}
			v ^= basis[bit].val
			sol ^= basis[bit].mask
		}
	}
	for i := 0; i < 24; i++ {
		if sol>>uint(i)&1 == 1 {
			b[hi+i/8] |= 0x80 >> uint(i%8)
		}
	}
	c := CRC24Q(b[:3+n])
	if c != want || string(b) == string(frame) {
		return nil
	}
	b[3+n], b[3+n+1], b[3+n+2] = byte(c>>16), byte(c>>8), byte(c)
	return b
}

const (
	KindFrame   = "frame"   // valid RTCM3 frame
	KindJunk    = "junk"    // other data without any 0xD3 byte
	KindGarbage = "garbage" // arbitrary bytes, may contain stray 0xD3
	KindTail    = "tail"    // truncated frame at the very end of the stream
	KindVictim  = "victim"  // frame corrupted in payload/CRC (C12)
)

type Segment struct {
	Kind  string
	Bytes []byte
	Type  int // for frames
}

func (s Segment) String() string {
	h := hex.EncodeToString(s.Bytes)
	if len(h) > 64 {
		h = h[:48] + "…" + h[len(h)-12:]
	}
	if s.Kind == KindFrame || s.Kind == KindVictim {
		return fmt.Sprintf("%s type=%d len=%d %s", s.Kind, s.Type, len(s.Bytes), h)
	}
	return fmt.Sprintf("%s len=%d %s", s.Kind, len(s.Bytes), h)
}

// MSMTypes are the fourteen MSM4/MSM7 message types.
var MSMTypes = []int{1074, 1077, 1084, 1087, 1094, 1097, 1104, 1107, 1114, 1117, 1124, 1127, 1134, 1137}

// DecodableTypes are the 16 types the library decodes fully.
var DecodableTypes = append([]int{1005, 1006}, MSMTypes...)

var interestingLens = []int{1, 2, 3, 4, 5, 9, 10, 19, 20, 21, 22, 23, 24, 25, 255, 256, 257, 1022, 1023}

// Opts shapes the device model for one property.
type Opts struct {
	MaxSegs       int
	LongOneIn     int  // 1 in n frames has a long payload (up to 1023)
	Garbage       bool // stray 0xD3 garbage allowed
	Tail          bool // optional truncated last frame
	MinFrames     int
	OnlyDecodable bool // message types drawn from the decodable set only
	MaxPayload    int  // cap (0 = 1023)
	NoSiblings    bool // never follow a frame by a nearly identical one
}

// GenPayload draws a payload for a frame of the given type.
func GenPayload(t *rt.Tape, typ, n int) []byte {
	p := make([]byte, n)
	mode := t.SW(8, 6, 4, 2, 2, 1) // zeros, random, sprinkled 0xD3, all 0xD3, nested frame, nested leaders
	switch mode {
	case 4:
		// a complete valid frame (or several) nested inside the payload
		for i := range p {
			p[i] = byte(t.S(256))
		}
		if n >= 10 {
			// (its type drawn like any other frame's, so that it often equals the
			// type of a frame seen earlier in the stream)
			ip := t.SBytes(1 + t.S(min(n-9, 12)))
			ity := GenType(t, false)
			ip[0] = byte(ity >> 4)
			if len(ip) >= 2 {
				ip[1] = ip[1]&0x0f | byte(ity&0xf)<<4
			}
			inner := Frame(ip)
			off := 2 + t.S(n-len(inner)-1)
			copy(p[off:], inner)
		}
	case 5:
		// plausible leaders (D3 00 0x) scattered through the payload
		for i := range p {
			p[i] = byte(t.S(256))
		}
		for i := 2; i+3 <= n; i += 3 + t.S(9) {
			p[i], p[i+1], p[i+2] = 0xD3, byte(t.S(4)), byte(1+t.S(20))
		}
	case 1:
		for i := range p {
			p[i] = byte(t.S(256))
		}
	case 2:
		for i := range p {
			p[i] = byte(t.S(256))
			if t.S(6) == 1 {
				p[i] = 0xD3
			}
		}
	case 3:
		for i := range p {
			p[i] = 0xD3
		}
	}
	// message type in the first 12 bits
	if n >= 2 {
		p[0] = byte(typ >> 4)
		p[1] = p[1]&0x0F | byte(typ&0xF)<<4
	} else {
		p[0] = byte(typ >> 4)
	}
	return p
}

// GenType draws a message type.
func GenType(t *rt.Tape, onlyDecodable bool) int {
	if onlyDecodable {
		return DecodableTypes[t.S(len(DecodableTypes))]
	}
	switch t.SW(3, 3, 2, 1, 1, 2) {
	case 0:
		return 1005 + t.S(2)
	case 1:
		return MSMTypes[t.S(len(MSMTypes))]
	case 2:
		return 1230
	case 3:
		return 0
	case 4:
		return 4095
	}
	return t.S(4096)
}

// GenLen draws a payload length 1..max.
func GenLen(t *rt.Tape, longOneIn, max int) int {
	if max <= 0 || max > 1023 {
		max = 1023
	}
	var n int
	switch t.SW(5, 3, 1) {
	case 0:
		n = 1 + t.S(40)
	case 1:
		n = interestingLens[t.S(len(interestingLens))]
	default:
		n = 1 + t.S(1023)
	}
	if n > 40 && longOneIn > 1 && t.S(longOneIn) != 0 {
		n = 1 + n%40
	}
	if n > max {
		n = 1 + n%max
	}
	return n
}

// GenFrame draws one valid frame; with wantD3CRC > 0 the payload is adjusted by
// search until the CRC holds 0xD3 at byte position wantD3CRC-1.
func GenFrame(t *rt.Tape, o Opts) Segment {
	typ := GenType(t, o.OnlyDecodable)
	n := GenLen(t, o.LongOneIn, o.MaxPayload)
	p := GenPayload(t, typ, n)
	f := Frame(p)
	if want := t.SW(12, 1, 1, 1); want > 0 && n >= 3 {
		// vary the last payload byte (and the one before) until the CRC has 0xD3 at the wanted place
	search:
		for a := 0; a < 256; a++ {
			for b := 0; b < 256; b++ {
				p[n-1] = byte(b)
				if n >= 4 {
					p[n-2] = byte(a)
				}
				f = Frame(p)
				if f[len(f)-4+want] == 0xD3 {
					break search
				}
			}
			if n < 4 {
				break
			}
		}
	}
	return Segment{Kind: KindFrame, Bytes: f, Type: TypeOf(f)}
}

var nmea = []string{
	"$GNGGA,123519.00,4807.038,N,01131.000,E,1,08,0.9,545.4,M,46.9,M,,*47\r\n",
	"$GNRMC,123519,A,4807.038,N,01131.000,E,022.4,084.4,230394,003.1,W*6A\r\n",
	"$GPGSV,3,1,11,03,03,111,00,04,15,270,00,06,01,010,00,13,06,292,00*74\r\n",
	"$GNTXT,01,01,02,<u-blox> ANTSTATUS=OK*25\r\n",
}

// GenJunk draws a run of non-RTCM data without any 0xD3 byte.
func GenJunk(t *rt.Tape) Segment {
	var b []byte
	switch t.SW(30, 30, 20, 20, 3) {
	case 4:
		// a long run (longer than any plausible internal buffer: 4096, 8192)
		n := []int{4095, 4096, 4097, 5000, 8192, 8193, 10000, 12288, 16385, 32769, 65535, 65536, 65537, 70000}[t.SW(4, 4, 4, 4, 3, 3, 3, 2, 1, 1, 1, 1, 1, 1)]
		b = make([]byte, n)
		seed := byte(t.S(256))
		for i := range b {
			b[i] = seed + byte(i*7) ^ byte(i>>8)
		}
	case 0:
		n := 1 + t.S(4)
		b = make([]byte, n)
		for i := range b {
			b[i] = byte('a' + t.S(26))
		}
	case 1:
		s := nmea[t.S(len(nmea))]
		b = []byte(s)
		if t.S(3) == 0 {
			b = b[:1+t.S(len(b))]
		}
	case 2:
		// UBX-like binary
		n := 2 + t.S(60)
		b = make([]byte, n)
		b[0], b[1] = 0xB5, 0x62
		for i := 2; i < n; i++ {
			b[i] = byte(t.S(256))
		}
	default:
		n := 1 + t.S(200)
		b = make([]byte, n)
		for i := range b {
			b[i] = byte(t.S(256))
		}
	}
	for i := range b {
		if b[i] == 0xD3 {
			b[i] = 0xD2
		}
	}
	return Segment{Kind: KindJunk, Bytes: b}
}

// GenGarbage draws bytes that may contain 0xD3 anywhere (stray preambles,
// plausible leaders with wrong continuation).
func GenGarbage(t *rt.Tape) Segment {
	var b []byte
	switch t.SW(3, 2, 2, 2) {
	case 0:
		b = []byte{0xD3}
	case 1:
		n := 1 + t.S(12)
		b = make([]byte, n)
		for i := range b {
			b[i] = byte(t.S(256))
			if t.S(3) == 0 {
				b[i] = 0xD3
			}
		}
	case 2:
		// plausible leader, then arbitrary continuation
		l := t.S(1024)
		b = []byte{0xD3, byte(l >> 8), byte(l)}
		if t.S(3) == 0 {
			b[1] |= byte(1+t.S(63)) << 2 // reserved bits set
		}
		k := t.S(16)
		for i := 0; i < k; i++ {
			b = append(b, byte(t.S(256)))
		}
	default:
		// a valid frame with one byte removed or added
		f := GenFrame(t, Opts{LongOneIn: 8}).Bytes
		i := t.S(len(f))
		if t.S(2) == 0 {
			b = append(append([]byte{}, f[:i]...), f[i+1:]...)
		} else {
			b = append(append(append([]byte{}, f[:i]...), byte(t.S(256))), f[i:]...)
		}
	}
	return Segment{Kind: KindGarbage, Bytes: b}
}

// GenStream draws a segment list.  An all-zero tape gives the empty stream.
func GenStream(t *rt.Tape, o Opts) []Segment {
	var segs []Segment
	n := o.MinFrames + t.S(o.MaxSegs+1-o.MinFrames)
	for i := 0; i < n; i++ {
		w := []int{6, 3, 0}
		if o.Garbage {
			w[2] = 2
		}
		if i < o.MinFrames {
			w = []int{1, 0, 0}
		}
		switch t.SW(w...) {
		case 0:
			segs = append(segs, GenFrame(t, o))
			if !o.NoSiblings && o.MaxPayload == 0 && t.SW(5, 1) == 1 {
				// followed at once by a nearly identical frame
				if sg, kind := SiblingFrame(t, segs[len(segs)-1].Bytes); kind != "" {
					segs = append(segs, sg)
				}
			}
			if !o.NoSiblings && o.MaxPayload == 0 && t.SW(7, 1) == 1 {
				// followed (not necessarily at once) by a frame that carries the beginning
				// of an earlier frame of this stream inside its payload
				segs = append(segs, EchoFrame(t, segs))
			}
		case 1:
			segs = append(segs, GenJunk(t))
		default:
			segs = append(segs, GenGarbage(t))
		}
	}
	if o.Tail && t.SBool(1, 4) {
		f := GenFrame(t, o).Bytes
		k := 1 + t.S(len(f)-1) // 1..len-1 bytes
		segs = append(segs, Segment{Kind: KindTail, Bytes: f[:k]})
	}
	return segs
}

// EchoFrame draws a valid frame whose payload holds, somewhere after its own
// type, the first bytes (leader, type, a little more, or everything) of a frame
// that came earlier in the same stream.  Real streams repeat themselves: the
// same message types from the same station come round every second, and binary
// payloads now and then contain what looks like the start of another message.
// Anything that remembers what it has seen (a resynchronisation heuristic, a
// cache keyed by a frame's first bytes) is sensitive to exactly that, and
// independently drawn payloads practically never produce it.
func EchoFrame(t *rt.Tape, earlier []Segment) Segment {
	var frames [][]byte
	for _, sg := range earlier {
		if sg.Kind == KindFrame {
			frames = append(frames, sg.Bytes)
		}
	}
	src := frames[t.S(len(frames))]
	k := []int{3, 4, 5, 6, 8, 12, len(src)}[t.S(7)]
	if k > len(src) {
		k = len(src)
	}
	if k > 1000 {
		k = 1000
	}
	typ := GenType(t, false)
	off := 2 + t.S(12)
	n := off + k + t.S(12)
	if n > 1023 {
		n = 1023
		off = n - k
	}
	p := make([]byte, n)
	for i := range p {
		p[i] = byte(t.S(256))
	}
	copy(p[off:], src[:k])
	p[0] = byte(typ >> 4)
	p[1] = p[1]&0x0F | byte(typ&0xF)<<4
	f := Frame(p)
	return Segment{Kind: KindFrame, Bytes: f, Type: TypeOf(f)}
}

// GenBulk draws a long stream of many tiny messages (alternating 1-byte junk and
// minimal frames, with the odd larger frame): state that has to build up
// (queues, rings, backlogs) needs hundreds or thousands of messages.
func GenBulk(t *rt.Tape, n int) []Segment {
	var segs []Segment
	for i := 0; i < n; i++ {
		if i%2 == 0 {
			f := Frame([]byte{byte(0x3e + i%3), byte(i)})
			segs = append(segs, Segment{Kind: KindFrame, Bytes: f, Type: TypeOf(f)})
		} else {
			segs = append(segs, Segment{Kind: KindJunk, Bytes: []byte{byte('a' + i%26)}})
		}
	}
	return segs
}

// GenBoundaryFit draws a run of long frames whose cumulative size lands just
// short of a buffer-sized boundary (1024 .. 8192), followed by a frame of nearly
// the maximum length: fixed-size buffers, batching and ring code fail exactly
// where a frame almost fits.
func GenBoundaryFit(t *rt.Tape) []Segment {
	B := []int{1024, 2048, 4096, 4096, 8192}[t.S(5)]
	lead := t.S(3) // frames written before the batch that is being fitted starts
	mk := func(payload int) Segment {
		p := make([]byte, payload)
		seed := byte(t.S(256))
		for i := range p {
			p[i] = seed ^ byte(i*5)
		}
		p[0] = 0x3e
		if payload >= 2 {
			p[1] = p[1]&0x0f | 0xd0 // type 1005
		}
		f := Frame(p)
		return Segment{Kind: KindFrame, Bytes: f, Type: TypeOf(f)}
	}
	var segs []Segment
	for i := 0; i < lead; i++ {
		segs = append(segs, mk(1+t.S(1023)))
	}
	// the fitted batch: total = B - d, d around the maximum frame length
	d := 1015 + t.S(20)
	target := B - d
	cum := 0
	for target-cum > 1029 {
		n := 1029
		if rest := target - cum - n; rest > 0 && rest < 7 {
			n -= 7
		}
		if t.S(3) == 0 && target-cum-1029 > 1029 {
			n = 700 + t.S(330)
		}
		segs = append(segs, mk(n-6))
		cum += n
	}
	if rest := target - cum; rest >= 7 {
		segs = append(segs, mk(rest-6))
	}
	// the frame that almost fits
	segs = append(segs, mk(1015+t.S(9)))
	for i := t.S(3); i > 0; i-- {
		segs = append(segs, mk(1+t.S(1023)))
	}
	return segs
}

func Concat(segs []Segment) []byte {
	var b []byte
	for _, s := range segs {
		b = append(b, s.Bytes...)
	}
	return b
}

// Expected returns the ground-truth message list of a stream that satisfies
// C03's precondition (frames, 0xD3-free junk, optional tail, optional victims):
// adjacent junk runs merged; every other segment on its own.
type Expect struct {
	Type int // -1 for non-RTCM
	Raw  []byte
}

func Expected(segs []Segment) []Expect {
	var out []Expect
	prevJunk := false
	for _, s := range segs {
		if len(s.Bytes) == 0 {
			continue
		}
		switch s.Kind {
		case KindFrame:
			out = append(out, Expect{s.Type, s.Bytes})
			prevJunk = false
		case KindJunk:
			if prevJunk {
				out[len(out)-1].Raw = append(append([]byte{}, out[len(out)-1].Raw...), s.Bytes...)
			} else {
				out = append(out, Expect{-1, s.Bytes})
			}
			prevJunk = true
		default: // tail, victim
			out = append(out, Expect{-1, s.Bytes})
			prevJunk = false
		}
	}
	return out
}

func Hash(b []byte) uint64 {
	h := fnv.New64a()
	h.Write(b)
	return h.Sum64()
}

func Describe(segs []Segment) []string {
	var r []string
	for i, s := range segs {
		if i >= 40 {
			r = append(r, fmt.Sprintf("... %d more segments", len(segs)-i))
			break
		}
		r = append(r, s.String())
	}
	return r
}

// ---- line faults -----------------------------------------------------------------

// LineFault describes one transmission fault applied to the wire bytes.
type LineFault struct {
	Kind string
	At   int
	Info string
}

// importantOffsets returns byte offsets biased to leader, first payload bytes
// and each CRC byte of the frames in segs.
func importantOffsets(segs []Segment) []int {
	var offs []int
	pos := 0
	for _, s := range segs {
		n := len(s.Bytes)
		if s.Kind == KindFrame && n >= 7 {
			offs = append(offs, pos, pos+1, pos+2, pos+3, pos+4, pos+n-3, pos+n-2, pos+n-1)
		}
		pos += n
	}
	return offs
}

func pickOffset(t *rt.Tape, segs []Segment, total int) int {
	offs := importantOffsets(segs)
	if len(offs) > 0 && t.S(4) != 0 {
		return offs[t.S(len(offs))]
	}
	return t.S(total)
}

// ApplyLineFaults injects 0..max transmission faults into the concatenated
// stream (mostly 0 or 1) and returns the wire bytes.
func ApplyLineFaults(t *rt.Tape, segs []Segment, max int) ([]byte, []LineFault) {
	wire := Concat(segs)
	var faults []LineFault
	n := t.SW(5, 4, 2, 1)
	if n > max {
		n = max
	}
	for i := 0; i < n && len(wire) > 0; i++ {
		at := pickOffset(t, segs, len(wire))
		if at >= len(wire) {
			at = len(wire) - 1
		}
		switch t.SW(4, 2, 3, 2, 2, 2, 1, 2, 2) {
		case 8: // nibble-level damage: swap two neighbouring nibbles or rotate a short window of nibbles
			if at+3 <= len(wire) {
				get := func(i int) byte { // nibble i of the 3-byte window
					b := wire[at+i/2]
					if i%2 == 0 {
						return b >> 4
					}
					return b & 0xf
				}
				var nib [6]byte
				for i := range nib {
					nib[i] = get(i)
				}
				old := nib
				if t.S(2) == 0 {
					i := t.S(5)
					nib[i], nib[i+1] = nib[i+1], nib[i]
				} else {
					lo := t.S(4)
					hi := lo + 2 + t.S(5-lo-1)
					if hi > 5 {
						hi = 5
					}
					first := nib[lo]
					copy(nib[lo:hi], nib[lo+1:hi+1])
					nib[hi] = first
				}
				if nib != old {
					for i := 0; i < 3; i++ {
						wire[at+i] = nib[2*i]<<4 | nib[2*i+1]
					}
					faults = append(faults, LineFault{"nibble-shuffle", at, ""})
				}
			}
		case 0: // bit flip
			bit := t.S(8)
			wire[at] ^= 0x80 >> uint(bit)
			faults = append(faults, LineFault{"bitflip", at, fmt.Sprint("bit ", bit)})
		case 1: // burst of up to 24 bits
			l := 2 + t.S(23)
			start := at*8 + t.S(8)
			for b := start; b < start+l && b/8 < len(wire); b++ {
				if t.S(2) == 0 || b == start {
					wire[b/8] ^= 0x80 >> uint(b%8)
				}
			}
			faults = append(faults, LineFault{"burst", at, fmt.Sprint(l, " bits")})
		case 2: // overwrite
			v := byte(t.S(256))
			if t.S(3) == 0 {
				v = 0xD3
			}
			if v == wire[at] {
				v ^= 1
			}
			wire[at] = v
			faults = append(faults, LineFault{"overwrite", at, fmt.Sprintf("%02x", v)})
		case 3: // drop a byte
			wire = append(wire[:at:at], wire[at+1:]...)
			faults = append(faults, LineFault{"drop", at, ""})
		case 4: // duplicate a byte
			wire = append(wire[:at+1:at+1], wire[at:]...)
			faults = append(faults, LineFault{"dup", at, ""})
		case 5: // duplicate a whole segment / swap adjacent segments: done on segment boundaries
			if len(segs) >= 2 {
				k := t.S(len(segs) - 1)
				pos := 0
				for j := 0; j < k; j++ {
					pos += len(segs[j].Bytes)
				}
				a, b := segs[k].Bytes, segs[k+1].Bytes
				if pos+len(a)+len(b) <= len(wire) {
					if t.S(2) == 0 {
						sw := append(append([]byte{}, b...), a...)
						copy(wire[pos:], sw)
						faults = append(faults, LineFault{"swap-frames", pos, ""})
					} else {
						wire = append(wire[:pos+len(a):pos+len(a)], append(append([]byte{}, a...), wire[pos+len(a):]...)...)
						faults = append(faults, LineFault{"dup-frame", pos, ""})
					}
				}
			}
		case 6: // truncate
			wire = wire[:at]
			faults = append(faults, LineFault{"truncate", at, ""})
		case 7: // insert garbage
			g := GenGarbage(t).Bytes
			wire = append(wire[:at:at], append(append([]byte{}, g...), wire[at:]...)...)
			faults = append(faults, LineFault{"insert-garbage", at, fmt.Sprint(len(g), " bytes")})
		}
	}
	return wire, faults
}

// ByzantineFrame draws a CRC-consistent frame with a malformed header: reserved
// bits set, length 0, or length field not matching the data (CRC computed over
// the malformed header and the data).
func ByzantineFrame(t *rt.Tape) Segment {
	n := 1 + t.S(30)
	p := make([]byte, n)
	for i := range p {
		p[i] = byte(t.S(256))
	}
	hdr := []byte{0xD3, byte(n>>8) & 3, byte(n)}
	kind := t.S(6)
	switch kind {
	case 5:
		// an aliased length: the field announces L, the data and the CRC are those
		// of a frame of L mod 256 (or L mod 512) bytes - what a length read through
		// too narrow a mask would take for a complete frame
		mod := []int{256, 256, 512}[t.S(3)]
		n = 1 + t.S(min(mod-1, 60))
		if t.S(4) == 0 {
			n = 1 + t.S(mod-1)
		}
		p = make([]byte, n)
		for i := range p {
			p[i] = byte(t.S(256))
		}
		l := n + mod*(1+t.S(1023/mod))
		if l > 1023 {
			l = n + mod
		}
		hdr[1], hdr[2] = byte(l>>8)&3, byte(l)
	case 3:
		// a sender that ignores the 10-bit limit: 16-bit length field equal to the
		// real data length (1024 and up), CRC consistent
		n = []int{1024, 1024, 1025, 1030, 2047, 2048}[t.S(6)]
		p = make([]byte, n)
		seed := byte(t.S(256))
		for i := range p {
			p[i] = seed ^ byte(i*11)
		}
		hdr[1], hdr[2] = byte(n>>8), byte(n)
	case 4:
		// the empty "keep-alive" frame d3 00 00 + CRC, intact or with one CRC byte wrong
		f := []byte{0xD3, 0, 0}
		c := CRC24Q(f)
		f = append(f, byte(c>>16), byte(c>>8), byte(c))
		if k := t.S(4); k > 0 {
			f[2+k] ^= byte(1 + t.S(255))
		}
		return Segment{Kind: KindGarbage, Bytes: f}
	case 0:
		hdr[1] |= byte(1+t.S(63)) << 2
	case 1:
		hdr[1], hdr[2] = 0, 0
	case 2:
		l := n + 1 + t.S(20)
		if t.S(2) == 0 && n > 1 {
			l = 1 + t.S(n-1)
		}
		hdr[1], hdr[2] = byte(l>>8)&3, byte(l)
	}
	f := append(hdr, p...)
	c := CRC24Q(f)
	f = append(f, byte(c>>16), byte(c>>8), byte(c))
	return Segment{Kind: KindGarbage, Bytes: f}
}
