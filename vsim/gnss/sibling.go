package gnss

import (
	"math/bits"

	"verif/vsim/rt"
)

// Siblings: "the next message from the same receiver".  Consecutive messages
// of a real stream are nearly identical - the same masks with other values, one
// satellite or signal more or less, the same position with another antenna
// height, the same message under the neighbouring type number - and that is
// exactly what caches, reused buffers and "has this changed" short cuts in a
// decoder are sensitive to.  Independent random frames never resemble each
// other; a sibling is derived from a frame that is already in the stream.

func GetBits(buf []byte, pos, n int) uint64 {
	var v uint64
	for i := 0; i < n; i++ {
		p := pos + i
		v <<= 1
		if p/8 < len(buf) && buf[p/8]&(0x80>>uint(p%8)) != 0 {
			v |= 1
		}
	}
	return v
}

// ParseMSMHeader recovers the spec of an MSM payload (ok=false when it is too
// short for the header and the cell mask its masks announce, or has more than
// 64 cells announced).
func ParseMSMHeader(p []byte) (sp MSMSpec, ok bool) {
	if len(p)*8 < 169 {
		return sp, false
	}
	sp.Type = int(GetBits(p, 0, 12))
	sp.Station = int(GetBits(p, 12, 12))
	sp.Timestamp = uint32(GetBits(p, 24, 30))
	sp.Multiple = GetBits(p, 54, 1) == 1
	sp.SatMask = GetBits(p, 73, 64)
	sp.SigMask = uint32(GetBits(p, 137, 32))
	n := bits.OnesCount64(sp.SatMask) * bits.OnesCount32(sp.SigMask)
	if n > 64 || len(p)*8 < 169+n {
		return sp, false
	}
	sp.CellMask = make([]bool, n)
	for i := range sp.CellMask {
		sp.CellMask[i] = GetBits(p, 169+i, 1) == 1
	}
	sp.BodyBits = -1
	sp.RandBody = true
	return sp, true
}

func isMSMType(typ int) bool {
	for _, x := range MSMTypes {
		if x == typ {
			return true
		}
	}
	return false
}

// SiblingPayload derives a payload that resembles p (never nil; may equal p
// in rare cases).  kind reports what was done, for the evidence.
func SiblingPayload(t *rt.Tape, p []byte) (q []byte, kind string) {
	q = append([]byte(nil), p...)
	if len(p) < 4 {
		if len(q) > 0 {
			q[len(q)-1] ^= 1
		}
		return q, "flip-last-bit"
	}
	typ := int(GetBits(p, 0, 12))
	nbits := len(p) * 8
	if isMSMType(typ) {
		if sp, ok := ParseMSMHeader(p); ok {
			switch t.SW(3, 2, 3, 2, 2, 1, 1) {
			case 0: // the next epoch: same masks, other values
				sp.Timestamp = (sp.Timestamp + []uint32{1000, 30000, 1, 0}[t.S(4)]) & (1<<30 - 1)
				return clip1023(BuildMSM(t, sp)), "msm-next-epoch"
			case 1: // exactly the same message apart from the epoch time
				PutBits(q, 24, 30, uint64((sp.Timestamp+1000)&(1<<30-1)))
				return q, "msm-only-epoch-time-differs"
			case 2: // one signal more or less; the cell mask keeps its VALUE (right-aligned)
				old := sp.CellMask
				if bits.OnesCount32(sp.SigMask) > 1 && t.S(2) == 0 {
					// drop the highest-numbered signal
					sp.SigMask &= sp.SigMask - 1
				} else {
					sp.SigMask |= 1 << uint(31-t.S(24))
				}
				n := bits.OnesCount64(sp.SatMask) * bits.OnesCount32(sp.SigMask)
				if n > 64 || n == 0 {
					break
				}
				sp.CellMask = make([]bool, n)
				switch t.S(3) {
				case 0: // same numeric value, right-aligned
					for i := 0; i < n && i < len(old); i++ {
						sp.CellMask[n-1-i] = old[len(old)-1-i]
					}
				case 1: // same leading bits
					copy(sp.CellMask, old)
				default:
					for i := range sp.CellMask {
						sp.CellMask[i] = true
					}
				}
				ensureCell(sp.CellMask)
				return clip1023(BuildMSM(t, sp)), "msm-signal-mask-changed"
			case 3: // one satellite more or less
				old := sp.CellMask
				if bits.OnesCount64(sp.SatMask) > 1 && t.S(2) == 0 {
					sp.SatMask &= sp.SatMask - 1
				} else {
					sp.SatMask |= 1 << uint(63-t.S(40))
				}
				n := bits.OnesCount64(sp.SatMask) * bits.OnesCount32(sp.SigMask)
				if n > 64 || n == 0 {
					break
				}
				sp.CellMask = make([]bool, n)
				if t.S(2) == 0 {
					for i := 0; i < n && i < len(old); i++ {
						sp.CellMask[n-1-i] = old[len(old)-1-i]
					}
				} else {
					copy(sp.CellMask, old)
				}
				ensureCell(sp.CellMask)
				return clip1023(BuildMSM(t, sp)), "msm-satellite-mask-changed"
			case 4: // the same observation under the neighbouring type number (MSM4 <-> MSM7, or another constellation)
				if t.S(2) == 0 {
					if IsMSM7(typ) {
						sp.Type = typ - 3
					} else {
						sp.Type = typ + 3
					}
				} else {
					sp.Type = MSMTypes[t.S(len(MSMTypes))]
				}
				return clip1023(BuildMSM(t, sp)), "msm-other-type-same-masks"
			case 5: // another cell mask under the same satellite and signal masks
				for i := range sp.CellMask {
					sp.CellMask[i] = t.S(3) != 0
				}
				ensureCell(sp.CellMask)
				return clip1023(BuildMSM(t, sp)), "msm-cell-mask-changed"
			default: // another station, everything else the same
				PutBits(q, 12, 12, uint64(t.S(4096)))
				return q, "msm-other-station"
			}
		}
	}
	switch t.SW(3, 3, 2, 2) {
	case 0: // same beginning, other end (from a field boundary where one is known)
		k := 24 + t.S(nbits-24)
		if typ == 1005 || typ == 1006 {
			cuts := []int{24, 30, 34, 72, 74, 112, 114, 152}
			k = cuts[t.S(len(cuts))]
			if typ == 1006 && t.S(2) == 0 {
				k = 152 // only the antenna height differs
			}
		}
		if k >= nbits {
			k = nbits - 1
		}
		for pos := k; pos < nbits; pos += 8 {
			n := min(8, nbits-pos)
			PutBits(q, pos, n, uint64(t.S(1<<uint(n))))
		}
		if bytesEqual(q, p) {
			q[len(q)-1] ^= 1
		}
		return q, "same-beginning-other-end"
	case 1: // one bit of the content differs
		pos := 24 + t.S(nbits-24)
		q[pos/8] ^= 0x80 >> uint(pos%8)
		return q, "one-bit-differs"
	case 2: // the neighbouring type number, everything else the same (1005 <-> 1006, x4 <-> x7, low nibble)
		nt := typ ^ (1 + t.S(15))
		switch {
		case typ == 1005:
			nt = 1006
		case typ == 1006:
			nt = 1005
		}
		PutBits(q, 0, 12, uint64(nt))
		return q, "same-content-neighbouring-type"
	default: // same end, other beginning (after the type)
		k := 12 + t.S(nbits-12)
		for pos := 12; pos < k; pos += 8 {
			n := min(8, k-pos)
			PutBits(q, pos, n, uint64(t.S(1<<uint(n))))
		}
		if bytesEqual(q, p) {
			q[1] ^= 1
		}
		return q, "same-end-other-beginning"
	}
}

func ensureCell(m []bool) {
	for _, b := range m {
		if b {
			return
		}
	}
	if len(m) > 0 {
		m[len(m)-1] = true
	}
}

func clip1023(p []byte) []byte {
	if len(p) > 1023 {
		return p[:1023]
	}
	return p
}

func bytesEqual(a, b []byte) bool {
	if len(a) != len(b) {
		return false
	}
	for i := range a {
		if a[i] != b[i] {
			return false
		}
	}
	return true
}

// SiblingFrame wraps SiblingPayload: a valid frame derived from a valid frame.
func SiblingFrame(t *rt.Tape, frame []byte) (Segment, string) {
	if len(frame) < 6 {
		return Segment{}, ""
	}
	p, kind := SiblingPayload(t, frame[3:len(frame)-3])
	f := Frame(p)
	return Segment{Kind: KindFrame, Bytes: f, Type: TypeOf(f)}, kind
}
